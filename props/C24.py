"""C24 - QUIC varints (internal/quicvarint) and transport parameter lists (u_quic_transport_parameters.go) encode losslessly.

TLA+: spec/Varint.tla (VarintEnc/VarintDec/MinLen/AppendWithLen on 8-byte values, TPList/TPParse, descriptor semantics),
      spec/Varint_MC.tla (laws checked exhaustively over the boundary lattice Lat^8; entry-list round trip; emits cases),
      spec/Varint_Trace.tla (every observation of the real functions must be explained; first failing clause reported).
Harness: harness/cmd/prng (varint, varread, tplist, tpown) - runs the real functions, logs bytes/panics, judges nothing.
Ownership: tpown keeps every returned slice / extension and re-reads all of them after each later call; the trace spec's
history variable `held` requires that no later call on another object changes a result handed out earlier.
Reproduction: a rejected event is re-run alone; if that is fine, together with its predecessors in the same process (5 attempts)."""
import concurrent.futures as cf
import json, os, random, re
import vlib

WIDTHS = [0, 1, 2, 3, 4, 8, 16]
DSTS = ["fresh", "full", "dirty-ff", "dirty-rand"]      # destination slice shapes (harness/cmd/prng/varint.go mkdst)
BOUNDS = [0, 2**6, 2**14, 2**30, 2**31, 2**32, 2**62, 2**63, 2**64]
VARINT_KINDS = ["MaxIdleTimeout", "MaxUDPPayloadSize", "InitialMaxData", "InitialMaxStreamDataBidiLocal", "InitialMaxStreamDataBidiRemote",
                "InitialMaxStreamDataUni", "InitialMaxStreamsBidi", "InitialMaxStreamsUni", "MaxAckDelay", "ActiveConnectionIDLimit",
                "MaxDatagramFrameSize"]


def b8(i):
    return list((i % 2**64).to_bytes(8, "big"))


def u64(b):
    return int.from_bytes(bytes(b), "big")


def rand_value(rng):
    k = rng.randrange(10)
    if k < 2:
        return (rng.choice(BOUNDS) + rng.randrange(-3, 4)) % 2**64
    return rng.getrandbits(rng.randrange(0, 65))


def rand_desc(rng, pool):
    """A random descriptor: a TLC-emitted one, or one with seeded random content."""
    d = dict(rng.choice(pool))
    k = rng.randrange(6)
    if k == 0 and d["kind"] in VARINT_KINDS:
        d["v"] = b8(rand_value(rng) if rng.random() < 0.7 else rng.getrandbits(62))
    elif k == 1:
        d = dict(d, kind="Fake", id=b8(rng.getrandbits(rng.randrange(1, 63))), val=[rng.randrange(256) for _ in range(rng.choice([0, 1, 7, 63, 64, 65, 300]))])
    elif k == 2:
        gid = 27 + 31 * rng.getrandbits(rng.randrange(0, 57))
        d = dict(d, kind="GREASE", id=b8(gid if rng.random() < 0.6 else rng.getrandbits(40)), length=rng.choice([0, 1, 8, 63, 64, 1000]),
                 val=[] if rng.random() < 0.6 else [rng.randrange(256) for _ in range(rng.randrange(1, 70))])
    elif k == 3:
        d = dict(d, kind="VersionInformation", chosen=list(rng.getrandbits(32).to_bytes(4, "big")), legacy=rng.random() < 0.3,
                 avail=[[10, 10, 10, 10] if rng.random() < 0.3 else list(rng.getrandbits(32).to_bytes(4, "big")) for _ in range(rng.randrange(0, 6))])
    elif k == 4:
        d = dict(d, kind=rng.choice(["InitialSourceConnectionID", "PaddingTransportParameter"]),
                 val=[rng.randrange(256) for _ in range(rng.choice([16383, 16384]) if rng.random() < 0.02 else rng.choice([0, 1, 8, 20, 63, 64]))])
    return d


_uid = [0]


def tlc_trace(ctx, rows):
    _uid[0] += 1
    u = _uid[0]
    mod = "Varint_Trace_%d" % u
    src = open(os.path.join(ctx.scratch, "Varint_Trace.tla")).read()
    src = src.replace("MODULE Varint_Trace", "MODULE " + mod).replace("varint_trace.ndjson", "varint_trace_%d.ndjson" % u)
    open(os.path.join(ctx.scratch, mod + ".tla"), "w").write(src)
    ctx.write_ndjson("varint_trace_%d.ndjson" % u, rows)
    res = ctx.tlc(mod, cfg="Varint_Trace", workers=1, timeout=1500)
    if res.violated:
        raise vlib.Machinery("Varint_Trace reported %r (it has no invariants)" % (res.violated,))
    done = res.tagged("DONE")
    if not done or done[0] != len(rows):
        raise vlib.Machinery("Varint_Trace did not consume the batch: DONE=%r of %d" % (done, len(rows)))
    rej = {}
    for line in res.out.splitlines():
        m = re.match(r'^<<"REJ", (\d+), "(.*)">>$', line.strip())
        if m:
            rej[int(m.group(1)) - 1] = m.group(2)
    return rej


def case_of(e):
    if e["ev"] == "V":
        return ("varint", {"values": [e["x"]], "prefix": e["prefix"], "widths": sorted({a["w"] for a in e["awl"]}), "tail": e["tail"],
                           "dsts": [a["dst"] for a in e["appends"]]})
    if e["ev"] == "R":
        return ("varread", {"inputs": [e["in"]]})
    return ("tplist", {"lists": [e["ds"]]})


def sig_of(e, why):
    if e["ev"] == "TP":
        return "TP:%s:%s" % (why, "+".join(sorted({d["kind"] for d in e["ds"]})))
    return "%s:%s" % (e["ev"], why)


def run(ctx):
    rng = random.Random(ctx.seed * 104729 + 24)
    quick = ctx.quick

    # ------------------------------------------------------------------ 1. model level (exhaustive over the lattices)
    with cf.ThreadPoolExecutor(max_workers=3) as ex:
        f1 = ex.submit(ctx.tlc, "Varint_MC", cfg="Varint_MC_quick" if quick else "Varint_MC", workers=4, timeout=2400)
        f2 = ex.submit(ctx.tlc, "Varint_MC", cfg="Varint_MC_tp", workers=2, timeout=1500)
        f3 = None if quick else ex.submit(ctx.tlc, "Varint_MC", cfg="Varint_MC_tp_deep", workers=4, timeout=2400)
        mc, tp, tp3 = f1.result(), f2.result(), (f3.result() if f3 else None)
    if mc.violated or tp.violated or (tp3 and tp3.violated):
        raise vlib.Machinery("Varint_MC: the specification's own laws fail at model level: %r %r" % (mc.violated, tp.violated))
    lattice = mc.tagged("CASE")
    descs, pairs = tp.tagged("DESCS"), tp.tagged("PAIRS")
    if len(lattice) < 100 or len(descs) != 1 or len(pairs) != 1:
        raise vlib.Machinery("Varint_MC emitted %d CASE, %d DESCS, %d PAIRS" % (len(lattice), len(descs), len(pairs)))
    descs, pairs = descs[0], pairs[0]

    # ------------------------------------------------------------------ 2. run the real code
    nrand = 10000 if quick else 200000
    values = [list(v) for v in lattice] + [b8(b + d) for b in BOUNDS for d in range(-2, 3)] + [b8(rand_value(rng)) for _ in range(nrand)]
    nsh = 4 if quick else 12
    nfull = len(values) - nrand + (3000 if quick else 40000)
    evs, origin = [], []          # origin[i] = (command, input of that harness process, name of the case list in it, index in it)
    def drv_rec(cmd, cin, key, name):
        r = ctx.drv(cmd, cin, prog="prng", name=name)
        if len(r) != len(cin[key]):
            raise vlib.Machinery("%s logged %d events for %d cases" % (cmd, len(r), len(cin[key])))
        evs.extend(r)
        origin.extend((cmd, cin, key, j) for j in range(len(r)))
    for k in range(nsh):
        part = values[k::nsh]
        prefix = [rng.randrange(256) for _ in range(rng.choice([0, 1, 5]))] if k else []
        tail = [rng.randrange(256) for _ in range(rng.choice([0, 2, 9]))] if k else []
        # every destination shape for the lattice/boundary values and the first random ones of the shard, fresh-only for the rest
        ndst = sum(1 for i in range(k, len(values), nsh) if i < nfull)
        for tag, vs, dsts in (("a", part[:ndst], DSTS), ("b", part[ndst:], ["fresh"])):
            if vs:
                drv_rec("varint", {"values": vs, "prefix": prefix, "widths": WIDTHS, "tail": tail, "dsts": dsts}, "values", "varint%d%s" % (k, tag))
    inputs = [[], [0], [63], [64], [64, 1], [128, 0, 0], [128, 0, 0, 1], [192] + [0] * 6, [192] + [0] * 7, [255] * 8, [255] * 9, [0x40, 0x25], [0x80, 0, 0, 0x25]]
    for _ in range(2000 if quick else 30000):
        n = rng.randrange(0, 11)
        first = rng.choice([0, 63, 64, 127, 128, 191, 192, 255, rng.randrange(256)])
        inputs.append(([first] + [rng.choice([0, 255, rng.randrange(256)]) for _ in range(n - 1)]) if n else [])
    drv_rec("varread", {"inputs": inputs}, "inputs", "varread")
    lists = [[]] + [[d] for d in descs] + [list(p) for p in pairs]
    for _ in range(500 if quick else 6000):
        lists.append([rand_desc(rng, descs) for _ in range(rng.choice([1, 2, 3, 3, 5, 8, 14]))])
    # the Firefox-shaped list of the repository's own TestMarshal, built from descriptors
    D0 = dict(descs[0], kind="", v=b8(0), id=b8(0), val=[], length=0, chosen=[0, 0, 0, 0], avail=[], legacy=False)
    lists.append([dict(D0, kind="InitialMaxStreamDataBidiRemote", v=b8(0x100000)), dict(D0, kind="InitialMaxStreamsBidi", v=b8(16)),
                  dict(D0, kind="MaxDatagramFrameSize", v=b8(0xFFFF)), dict(D0, kind="GREASE", length=1), dict(D0, kind="MaxIdleTimeout", v=b8(30000)),
                  dict(D0, kind="VersionInformation", chosen=[0, 0, 0, 1], avail=[[10, 10, 10, 10], [0, 0, 0, 1]], legacy=True),
                  dict(D0, kind="GREASEQUICBit"), dict(D0, kind="InitialSourceConnectionID", val=list(range(3))), dict(D0, kind="DisableActiveMigration")])
    drv_rec("tplist", {"lists": lists}, "lists", "tplist")
    if len(evs) != len(values) + len(inputs) + len(lists):
        raise vlib.Machinery("harness logged %d events for %d cases" % (len(evs), len(values) + len(inputs) + len(lists)))

    # ownership scenarios: one goroutine, every result kept, everything held re-read after each call (spec: WhyOwn / held)
    pool = [l for l in lists if l and len(l) <= 8]
    own_scs = []
    for k in range(40 if quick else 400):
        steps = []
        for _ in range(rng.choice([2, 3, 5, 8, 12])):
            kind = rng.choice(["marshal", "marshal", "ext", "ext", "append"])
            steps.append({"kind": kind, "ds": [] if kind == "append" else (rng.choice(pool) if rng.random() < 0.9 else []),
                          "x": b8(rand_value(rng)) if kind == "append" else b8(0)})
        own_scs.append({"sc": k + 1, "steps": steps})
    # the shape of the use in the library: one parameter list per connection, extension A written again after B was built
    own_scs.append({"sc": len(own_scs) + 1, "steps": [{"kind": "ext", "ds": lists[-1], "x": b8(0)}, {"kind": "ext", "ds": list(reversed(lists[-1])), "x": b8(0)},
                                                        {"kind": "marshal", "ds": lists[-1][:3], "x": b8(0)}, {"kind": "marshal", "ds": lists[-1][3:], "x": b8(0)}]})
    oevs = ctx.drv("tpown", {"scenarios": own_scs}, prog="prng", name="tpown")
    if len(oevs) != sum(len(x["steps"]) for x in own_scs):
        raise vlib.Machinery("tpown logged %d events for %d steps" % (len(oevs), sum(len(x["steps"]) for x in own_scs)))

    # ------------------------------------------------------------------ 3. binding canaries (corrupted copies of good events)
    def clone(e):
        return json.loads(json.dumps(e))
    canaries = []
    def can(pred, mutate, want):
        src = next((i for i, x in enumerate(evs) if pred(x)), None)
        if src is None:          # no event of the shape this canary is cut from (itself suspicious: vacuity classes below catch it)
            return
        e = clone(evs[src])
        mutate(e)
        canaries.append((e, want, src))
    ok_v = lambda x: x["ev"] == "V" and x["append"]["panic"] == "" and x["len"]["n"] == 2
    can(ok_v, lambda e: None, "")
    can(ok_v, lambda e: e["append"]["out"].__setitem__(-1, e["append"]["out"][-1] ^ 1), "append-bytes")
    can(ok_v, lambda e: e["len"].__setitem__("n", 4), "len-value")
    def awl_fake(e):
        a = next(a for a in e["awl"] if a["w"] == 1)
        a["panic"], a["out"] = "", e["prefix"] + [e["x"][7]]
    can(ok_v, awl_fake, "appendwithlen-not-refused")                     # truncation instead of refusal
    can(ok_v, lambda e: e["rt"].__setitem__("val", b8(u64(e["rt"]["val"]) + 1)), "read-value")
    dirty_v = lambda x: ok_v(x) and any(a["dst"] == "dirty-ff" for a in x["appends"])
    def stale(e):              # stale bytes of a reused buffer shine through the padding of a wider encoding
        a = next(a for a in e["awl"] if a["w"] == 4 and a["dst"] == "dirty-ff")
        a["out"][len(e["prefix"])] |= 0x3f
        a["out"][len(e["prefix"]) + 1] = 0xff
    can(dirty_v, stale, "appendwithlen-bytes")
    can(dirty_v, lambda e: next(a for a in e["appends"] if a["dst"] == "dirty-rand")["out"].__setitem__(0, next(a for a in e["appends"] if a["dst"] == "dirty-rand")["out"][0] ^ 1)
        if e["prefix"] else next(a for a in e["appends"] if a["dst"] == "dirty-rand")["out"].append(0), "append-bytes-dst")      # prefix not preserved / extra byte
    def trunc(e):
        e["append"] = {"out": e["prefix"] + [192 | 0x3f] + e["x"][1:], "n": 0, "panic": ""}
    can(lambda x: x["ev"] == "V" and x["append"]["panic"] != "" and x["x"][0] >= 64, trunc, "append-not-refused")   # 2^62.. truncated to 62 bits
    can(lambda x: x["ev"] == "R" and x["rd"]["err"] == "" and len(x["in"]) >= 4, lambda e: e["rd"].__setitem__("used", e["rd"]["used"] + 1), "read-consumed")
    can(lambda x: x["ev"] == "R" and x["rd"]["err"] != "" and len(x["in"]) >= 1, lambda e: e["rd"].__setitem__("err", ""), "read-truncated-accepted")
    ok_tp = lambda x: x["ev"] == "TP" and x["panic"] == "" and len(x["ds"]) >= 2 and len(x["out"]) > 4
    can(ok_tp, lambda e: None, "")
    can(ok_tp, lambda e: e["out"].pop(), "marshal-body")
    can(lambda x: ok_tp(x) and x["ds"][0]["kind"] != x["ds"][-1]["kind"], lambda e: e["ds"].reverse(), "marshal-body")
    can(lambda x: ok_tp(x) and any(d["kind"] in VARINT_KINDS and u64(d["v"]) not in (0, 2**62 - 1) for d in x["ds"]),
        lambda e: next(d for d in e["ds"] if d["kind"] in VARINT_KINDS and u64(d["v"]) not in (0, 2**62 - 1)).__setitem__(
            "v", b8(u64(next(d for d in e["ds"] if d["kind"] in VARINT_KINDS and u64(d["v"]) not in (0, 2**62 - 1))["v"]) ^ 1)), "marshal-body")
    can(lambda x: x["ev"] == "TP" and x["panic"] != "", lambda e: e.__setitem__("panic", ""), "marshal-not-refused")
    can(ok_tp, lambda e: e["ext"].__setitem__(3, (e["ext"][3] + 1) % 256), "ext-header")
    can(lambda x: x["ev"] == "TP" and x["panic"] == "" and len(x["ds"]) == 1 and x["ds"][0]["kind"] == "GREASE" and u64(x["ds"][0]["id"]) % 31 != 27,
        lambda e: e["out"].__setitem__(0, 5) or e["ext"].__setitem__(4, 5), "marshal-body")     # GREASE id replaced by a non-GREASE id (1-byte id 5)
    if len(canaries) < 10:
        raise vlib.Machinery("only %d binding canaries could be built" % len(canaries))
    # ------------------------------------------------------------------ 4. TLC judges
    rows = evs + [c[0] for c in canaries]
    shards = [list(range(k, len(rows), nsh)) for k in range(nsh)]
    with cf.ThreadPoolExecutor(max_workers=min(nsh, 12)) as ex:
        rejs = list(ex.map(lambda idx: tlc_trace(ctx, [rows[i] for i in idx]), shards))
    rejected = {}
    for idx, rej in zip(shards, rejs):
        for k, why in rej.items():
            rejected[idx[k]] = why
    for k, (e, want, src) in enumerate(canaries):
        got = rejected.pop(len(evs) + k, "")
        if src in rejected:
            # the event the canary was cut from is itself rejected (a finding below): the canary can only be required to be rejected too
            if want and not got:
                raise vlib.Machinery("binding canary %d (%s): accepted although corrupted" % (k, e["ev"]))
        elif got != want:
            raise vlib.Machinery("binding canary %d (%s): TLC said %r, expected %r" % (k, e["ev"], got, want))
    ctx.traces += len(evs)

    # ownership scenarios (contiguous, one TLC run) with their canaries: an untouched copy and a copy in which a
    # result held since step 1 shows other bytes after a later call
    def own_events(scid):
        return [e for e in oevs if e["sc"] == scid]
    src_sc = next((x["sc"] for x in own_scs if len(x["steps"]) >= 3 and all(e["panic"] == "" and e["out"] for e in own_events(x["sc"]))), None)
    if src_sc is None:
        raise vlib.Machinery("no ownership scenario with three successful steps to cut the canaries from")
    ctl = [dict(clone(e), sc=9000) for e in own_events(src_sc)]
    bad = [dict(clone(e), sc=9001) for e in own_events(src_sc)]
    bad[2]["now"][0][-1] ^= 1
    orows = oevs + ctl + bad
    orej = tlc_trace(ctx, orows)
    src_rej = any(orows[i]["sc"] == src_sc for i in orej)
    got_ctl = [orej[i] for i in orej if orows[i]["sc"] == 9000]
    got_bad = [orej[i] for i in orej if orows[i]["sc"] == 9001]
    if not got_bad or (not src_rej and (got_ctl or got_bad[0] != "retained-result-changed-by-a-later-call")):
        raise vlib.Machinery("ownership canaries: control %r, overwritten copy %r" % (got_ctl, got_bad))
    own_rejected = {i: w for i, w in orej.items() if orows[i]["sc"] < 9000}
    ctx.traces += len(own_scs)

    ATTEMPTS = 5
    unreproduced = []     # rejections seen once and never again: exit 2 unless other rejections of this run are reproduced
    # reproduce rejections in fresh processes: up to 3 cases per (event kind, reason), each executed by its own harness
    # process, all re-judged by one more TLC run; further cases with the same (kind, reason) are counted, not re-run
    chosen, per = [], {}
    for i, why in sorted(rejected.items()):
        key = (evs[i]["ev"], why)
        per.setdefault(key, []).append(i)
        if len(per[key]) <= 3:
            chosen.append(i)
    again = []
    for i in chosen:
        cmd, cin = case_of(evs[i])
        r = ctx.drv(cmd, cin, prog="prng", name="re%d" % i)
        if len(r) != 1:
            raise vlib.Machinery("replay of event %d produced %d events" % (i, len(r)))
        again.append(r[0])
    r2 = tlc_trace(ctx, again) if again else {}
    first = {}
    def describe(e):
        return {"V": "quicvarint value %s" % bytes(e.get("x", [])).hex(), "R": "quicvarint.Read(%s)" % bytes(e.get("in", [])).hex(),
                "TP": "TransportParameters.Marshal of %s" % [d["kind"] for d in e.get("ds", [])],
                "Own": "%s of %s (step %s of a sequence of calls whose results are all kept)" % (e.get("kind"), [d["kind"] for d in e.get("ds", [])] or bytes(e.get("x", [])).hex(), e.get("step"))}[e["ev"]]
    for k, i in enumerate(chosen):
        e = evs[i]
        if k in r2:
            what = "%s: %s" % (describe(e), r2[k])
            cmd, cin = case_of(e)
            replay = {"command": cmd, "input": cin, "observed": again[k], "why": r2[k]}
            sig = sig_of(e, r2[k])
        else:
            # alone it is fine: run it again together with everything that preceded it in the same harness process
            # (same command, same order, same goroutine layout); behaviour that depends on earlier calls may also depend
            # on the schedule / GC, so several attempts are made and one reproduction is enough
            cmd, cin, key, idx = origin[i]
            pin = dict(cin, **{key: cin[key][:idx + 1]})
            hit = None
            for a in range(ATTEMPTS):
                pr = ctx.drv(cmd, pin, prog="prng", name="pre%d_%d" % (i, a))
                prej = tlc_trace(ctx, pr)
                same = sorted(j for j, w in prej.items() if w == rejected[i])
                if same:
                    hit = (a + 1, same, pr[same[-1]])
                    break
            if hit is None:
                unreproduced.append("event %d rejected (%s) but the rejection reproduced neither alone nor after its %d predecessors (%d attempts)" % (i, rejected[i], idx, ATTEMPTS))
                continue
            what = ("%s: %s - NOT reproducible by this call alone; reproduced when the %d calls that preceded it in the same process are made first "
                    "(attempt %d of %d, %d event(s) rejected with this reason in the re-run): the result depends on earlier calls on other objects" %
                    (describe(e), rejected[i], idx, hit[0], ATTEMPTS, len(hit[1])))
            replay = {"command": cmd, "input_prefix_len": idx + 1, "first_case": pin[key][0], "last_case": pin[key][-1],
                      "rejected_indices_in_rerun": hit[1][:20], "observed": hit[2], "why": rejected[i], "note": "schedule/GC dependent"}
            sig = "%s:%s:after-other-calls" % (e["ev"], rejected[i])
        first.setdefault((e["ev"], rejected[i]), (sig, what, replay))
        ctx.finding(sig, what, replay)
    for key, idx in per.items():
        for i in idx[3:]:
            if key in first:
                sig, what, replay = first[key]
                ctx.finding(sig, what, replay)

    # ownership scenarios: a rejected step is re-run with its predecessors, i.e. the whole scenario alone in a fresh process
    per = {}
    for i, why in sorted(own_rejected.items()):
        per.setdefault(why, []).append(i)
    for why, idx in per.items():
        firstf = None
        for i in idx[:3]:
            e = orows[i]
            scn = next(x for x in own_scs if x["sc"] == e["sc"])
            hit = None
            for a in range(ATTEMPTS):
                pr = ctx.drv("tpown", {"scenarios": [scn]}, prog="prng", name="own%d_%d" % (i, a))
                prej = tlc_trace(ctx, pr)
                same = sorted(j for j, w in prej.items() if w == why)
                if same:
                    hit = (a + 1, same, pr[same[0]])
                    break
            if hit is None:
                unreproduced.append("ownership scenario %d step %d rejected (%s) but not again in %d re-runs" % (e["sc"], e["step"], why, ATTEMPTS))
                continue
            kinds = [st["kind"] for st in scn["steps"]]
            what = "%s: %s; sequence %s, reproduced in a fresh process (attempt %d of %d)" % (describe(e), why, kinds, hit[0], ATTEMPTS)
            firstf = firstf or ("Own:%s" % why, what, {"command": "tpown", "input": {"scenarios": [scn]}, "observed": hit[2], "why": why})
            ctx.finding("Own:%s" % why, what, {"command": "tpown", "input": {"scenarios": [scn]}, "observed": hit[2], "why": why})
        for i in idx[3:]:
            if firstf:
                ctx.finding(*firstf)
    if unreproduced:
        if not ctx.findings:
            raise vlib.Machinery("; ".join(unreproduced[:5]))
        for u in unreproduced:
            ctx.note("not counted (seen once, not reproduced; other rejections of this run are reproduced): " + u)

    # ------------------------------------------------------------------ 5. vacuity
    # classes are computed from the INPUTS of the executed cases (coverage accounting, no judgement of outcomes)
    V = [e for e in evs if e["ev"] == "V"]
    R = [e for e in evs if e["ev"] == "R"]
    TP = [e for e in evs if e["ev"] == "TP"]
    minlen = lambda v: 1 if v < 2**6 else 2 if v < 2**14 else 4 if v < 2**30 else 8 if v < 2**62 else 0
    classes = {"len%d" % n: sum(1 for e in V if minlen(u64(e["x"])) == n) for n in (1, 2, 4, 8)}
    classes["refused"] = sum(1 for e in V if minlen(u64(e["x"])) == 0)
    classes["awl_padded"] = sum(1 for e in V for a in e["awl"] if a["w"] in (1, 2, 4, 8) and 0 < minlen(u64(e["x"])) < a["w"])
    classes["awl_padded_dirty_dst"] = sum(1 for e in V for a in e["awl"] if a["dst"].startswith("dirty") and a["w"] in (2, 4, 8) and 0 < minlen(u64(e["x"])) < a["w"])
    classes["awl_padded_nonempty_prefix"] = sum(1 for e in V if e["prefix"] for a in e["awl"] if a["w"] in (2, 4, 8) and 0 < minlen(u64(e["x"])) < a["w"])
    classes["append_full_dst"] = sum(1 for e in V for a in e["appends"] if a["dst"] == "full")
    classes["awl_too_small"] = sum(1 for e in V for a in e["awl"] if a["w"] in (1, 2, 4) and minlen(u64(e["x"])) > a["w"])
    classes["awl_bad_width"] = sum(1 for e in V for a in e["awl"] if a["w"] not in (1, 2, 4, 8))
    need = lambda b: 1 << (b[0] >> 6)
    classes["read_ok"] = sum(1 for e in R if e["in"] and len(e["in"]) >= need(e["in"]))
    classes["read_truncated"] = sum(1 for e in R if not e["in"] or len(e["in"]) < need(e["in"]))
    classes["read_nonminimal"] = sum(1 for e in R if e["in"] and len(e["in"]) >= need(e["in"]) and need(e["in"]) > 1 and
                                     minlen(u64([e["in"][0] & 63] + e["in"][1:need(e["in"])])) < need(e["in"]))
    def refuses(d):
        return (d["kind"] in VARINT_KINDS and u64(d["v"]) >= 2**62) or (d["kind"] == "Fake" and (u64(d["id"]) == 0 or u64(d["id"]) >= 2**62)) or \
               (d["kind"] == "GREASE" and u64(d["id"]) >= 2**62 and u64(d["id"]) % 31 == 27)
    classes["tp_marshalable"] = sum(1 for e in TP if not any(refuses(d) for d in e["ds"]))
    classes["tp_to_refuse"] = sum(1 for e in TP if any(refuses(d) for d in e["ds"]))
    classes["tp_grease_random_id"] = sum(1 for e in TP if any(d["kind"] == "GREASE" and u64(d["id"]) % 31 != 27 for d in e["ds"]))
    classes["tp_grease_random_value"] = sum(1 for e in TP if any(d["kind"] == "GREASE" and not d["val"] and d["length"] for d in e["ds"]))
    classes["tp_fake"] = sum(1 for e in TP if any(d["kind"] == "Fake" for d in e["ds"]))
    classes["tp_version_grease"] = sum(1 for e in TP if any(d["kind"] == "VersionInformation" and [10, 10, 10, 10] in d["avail"] for d in e["ds"]))
    classes["tp_long_value"] = sum(1 for e in TP if any(len(d["val"]) >= 64 for d in e["ds"]))
    classes["own_steps_after_a_kept_marshal"] = sum(1 for x in own_scs for j, st in enumerate(x["steps"]) if any(p["kind"] == "marshal" and p["ds"] for p in x["steps"][:j]))
    classes["own_steps_after_a_kept_extension"] = sum(1 for x in own_scs for j, st in enumerate(x["steps"]) if any(p["kind"] == "ext" and p["ds"] for p in x["steps"][:j]))
    classes["own_steps_after_a_kept_append"] = sum(1 for x in own_scs for j, st in enumerate(x["steps"]) if any(p["kind"] == "append" for p in x["steps"][:j]))
    for k, v in classes.items():
        if v == 0:
            raise vlib.Machinery("vacuity: no executed case of class %s" % k)

    sample = [{"x": bytes(e["x"]).hex(), "append": bytes(e["append"]["out"]).hex(), "panic": e["append"]["panic"][:40]} for e in V[300:303]]
    sample.append({"list": [d["kind"] for d in TP[-1]["ds"]], "body": bytes(TP[-1]["out"]).hex()})
    cov = {"evaluations": len(evs) + len(oevs), "distinct_nontrivial": len({tuple(e["x"]) for e in V}) + len({tuple(e["in"]) for e in R}) + len({json.dumps(e["ds"], sort_keys=True) for e in TP}),
           "rule": "evaluations = events (one 64-bit value through Append/Len/AppendWithLen x %d widths/Read, one Read input, or one parameter list through Marshal and the extension writer) "
                   "judged by TLC; distinct = distinct values + distinct Read inputs + distinct descriptor lists; values = TLC-emitted boundary-shaped lattice values (%d) + boundary+-2 + %d seeded random" % (len(WIDTHS), len(lattice), nrand),
           "samples": sample, "values": len(V), "read_inputs": len(R), "parameter_lists": len(TP), "ownership_scenarios": len(own_scs), "ownership_steps": len(oevs), "classes": classes,
           "model": {"value_lattice_states": mc.distinct, "value_cfg": "Varint_MC_quick" if quick else "Varint_MC", "entry_list_states": tp.distinct + (tp3.distinct if tp3 else 0), "entry_list_max_len": 2 if quick else 3},
           "canaries": len(canaries), "exhaustive": False,
           "exhaustive_at_model_level": "Dec(Enc(x)) = x, Len(Enc(x)) = MinLen(x), widths and refusal for every x in Lat^8; TPParse(TPList(es)) = es for every list over the entry lattice"}
    return "model_checking", cov, [
        "RFC 9000 section 16/18 as transcribed in spec/Varint.tla is the meaning of 'lossless'",
        "GREASE versions inside VersionInformation (0x0a0a0a0a placeholders) are holes here: their well-formedness is C04's subject",
        "FakeQUICTransportParameter with Id 0 panics by documented contract; the specification accepts only a panic there",
        "all 62-bit values are covered symbolically only at the lattice Lat^8 (TLC, exhaustive) and by seeded sampling on the real code"]
