"""C22 - application settings (ALPS) are exchanged consistently.
TLA+: NegoMC Mode c22 (ALPS parrots x offered code point x client settings map x ALPN x version; invariant ALPSRule),
Negotiation!CheckEE (alps-without-alpn), NegoTrace!AlpsProblems (server settings exposed, client settings sent as
configured in a client EncryptedExtensions that the hooked server reads into its transcript, nothing accepted below 1.3)."""
import nego_common as nc, vlib

def run(ctx):
    def subset(xs):
        out = xs + [dict(x, alps_first=True) for x in xs if x["ver"] == 772]
        # client settings of other lengths than 4 bytes (length bytes of the client's EncryptedExtensions: one- and two-byte
        # boundaries), one handshake per (parrot, code point, length)
        seen = set()
        for x in xs:
            if x["ver"] == 772 and x["client_alps"] == "has" and x["alpn"] == ["h2"] and x["alps_settings"] and (x["id"], x["alps_cp"]) not in seen:
                seen.add((x["id"], x["alps_cp"]))
                out += [dict(x, client_alps_len=n) for n in (1, 249, 250, 251, 252, 255, 256, 506, 507, 1000)]
        return out
    scns, events, rej, unadv, mc = nc.run_nego(ctx, "c22", shards=6, extra_ids=[], subset=subset)
    for r in rej:
        d = nc.sig_detail(r["detail"])
        s = r["scn"]
        if r["kind"] in ("order", "timeout", "calibration"):
            raise vlib.Machinery("trace problem: %r" % (r,))
        if r["kind"] == "alps":
            ctx.finding("alps:%s:cp%d:client_map=%s" % (d, s["alps_cp"], s["client_alps"]), "application settings of %s handled wrongly: %s" % (s["id"], d),
                        {"scenario": dict(nc.scn_brief(s), alps_cp=s["alps_cp"], client_alps=s["client_alps"], alps12=s["alps12"]), "result": r["result"]})
        elif r["kind"] == "safety" and "alps" in d:
            ctx.finding("alps:accepted:%s:cp%d" % (d, s["alps_cp"]), "client accepted application settings it must reject: %s" % d, {"scenario": nc.scn_brief(s)})
        elif r["kind"] == "progress" and s.get("alps_cp"):
            ctx.finding("alps:progress:%s:cp%d:client_map=%s" % (d, s["alps_cp"], s["client_alps"]), "handshake with application settings failed: %s (%s / %s)" % (d, (r["result"] or {}).get("cerr"), (r["result"] or {}).get("serr")),
                        {"scenario": dict(nc.scn_brief(s), alps_cp=s["alps_cp"], client_alps=s["client_alps"]), "result": r["result"]})
    res = {e["sc"]: e for e in events if e["ev"] == "Result"}
    exposed = sum(1 for s in scns if s.get("alps_cp") and res[s["sc"]]["cok"] and res[s["sc"]]["peer_alps"])
    sent = sum(1 for s in scns if s.get("alps_cp") and res[s["sc"]]["cok"] and len(res[s["sc"]]["client_ee"]) > 0)
    refused = sum(1 for s in scns if s.get("alps_cp") and not s["alpn"] and not res[s["sc"]]["cok"])
    cps = sorted({s["alps_cp"] for s in scns if s.get("alps_cp")})
    if exposed == 0 or sent == 0 or refused == 0 or len(cps) < 2:
        raise vlib.Machinery("vacuous: exposed=%d client_ee=%d refused_without_alpn=%d codepoints=%r" % (exposed, sent, refused, cps))
    cov = {"evaluations": len(scns), "distinct_nontrivial": len(scns),
           "rule": "every parrot offering ALPS x each offered code point x client ApplicationSettings map {has the protocol, lacks it, empty} x server ALPN {h2, http/1.1, none} x server settings {4 bytes, empty} x {TLS 1.3 EncryptedExtensions, TLS 1.2 ServerHello}; distinct = scenarios",
           "samples": [dict(nc.scn_brief(s), alps_cp=s["alps_cp"], client_alps=s["client_alps"]) for s in scns[:3]],
           "server_settings_exposed": exposed, "client_ee_read_by_server": sent, "refused_without_alpn": refused, "codepoints": cps, "exhaustive": True}
    return "model_checking", cov, ["the hooked server reads the client's EncryptedExtensions into its transcript (H7) and runs with RequestClientCert", "an ALPS code point the client did not offer is not exercised (not part of the statement)"]
