"""C31 - public views of handshake messages convert losslessly.
TLA+: spec/PubViews.tla (which logged values must be equal, which private fields have no public counterpart),
spec/PubViews_MC.tla (TLC enumerates the input grid: field presence of ServerHello / CertificateRequest views, short
key-share / PSK-identity / ticket-key lists), spec/PubViews_Trace.tla (TLC judges every logged conversion).
Harness: harness/cmd/gen/pub.go through the verif accessors of verif_gen.go (getPrivatePtr/getPublicPtr etc. are unexported).
TLA+ is an equality oracle here; the level claimed is "other"."""
import copy, json
import concurrent.futures as cf
import vlib

RANDOMIZED = ["Randomized-0", "Randomized-ALPN-0", "Randomized-NoALPN-0"]


def validate(ctx, rows, name):
    mod = "PubViews_Trace_" + name
    src = open(ctx.scratch + "/PubViews_Trace.tla").read().replace("c31_trace.ndjson", name + ".ndjson").replace(
        "MODULE PubViews_Trace", "MODULE " + mod)
    open(ctx.scratch + "/" + mod + ".tla", "w").write(src)
    ctx.write_ndjson(name + ".ndjson", rows)
    res = ctx.tlc(mod, cfg="PubViews_Trace", timeout=900, heap="4g")
    done = res.tagged("DONE")
    if not done or done[0] != len(rows):
        raise vlib.Machinery("C31 trace validation did not reach the end of batch %s: %r\n%s" % (name, done, res.out[-2000:]))
    return [(r[0], sorted(r[1]), r[2]) for r in res.tagged("REJ")]


def label(ev):
    if ev["ev"] == "CH":
        return "CH:" + ev["id"]
    if ev["ev"] in ("SH", "CR"):
        return ev["ev"]
    if ev["ev"] == "List":
        return "List:" + ev["kind"]
    if ev["ev"] == "Edit":
        return "Edit:" + ev["path"]
    return ev["ev"]


def run(ctx):
    # ---- inputs enumerated by TLC
    mc = ctx.tlc("PubViews_MC", cfg="PubViews_MC" if ctx.quick else "PubViews_MC_full", timeout=900)
    seen, scns = set(), []
    for s in mc.tagged("SCN"):
        k = json.dumps(s, sort_keys=True)
        if k not in seen:
            seen.add(k); scns.append(s)
    if len(scns) != mc.distinct:
        raise vlib.Machinery("C31: %d scenarios collected, TLC reports %d distinct initial states" % (len(scns), mc.distinct))
    sh = [s for s in scns if s["kind"] == "SH"]
    cr = [s for s in scns if s["kind"] == "CR"]
    ls = [s for s in scns if s["kind"] in ("KS", "PSK", "TK")]
    chw = [s for s in scns if s["kind"] == "CHW"]
    if not sh or not cr or not ls or len(chw) < 300:
        raise vlib.Machinery("C31 vacuity: scenario grid incomplete (%d/%d/%d/%d)" % (len(sh), len(cr), len(ls), len(chw)))
    ids = sorted(ctx.drv("dumpspecs", {"ids": []}, prog="gen")[0]["specs"].keys())
    evs = []
    evs += ctx.drv("pubhello", {"ids": ids, "n": 2 if ctx.quick else 12}, prog="gen", timeout=1200)
    evs += ctx.drv("pubhello", {"ids": RANDOMIZED, "n": 40 if ctx.quick else 400}, prog="gen", name="pubhello_r", timeout=1200)
    # ClientHellos encoded by the TLA+ reference encoder over presence combinations of the optional members
    grid = ctx.drv("pubhelloraw", {"scns": [{"f": s["f"], "raw": s["raw"]} for s in chw]}, prog="gen", timeout=1200)
    if len(grid) != len(chw):
        raise vlib.Machinery("C31: %d grid hellos sent, %d events back" % (len(chw), len(grid)))
    evs += grid
    nch = len(evs)
    # edit the public view (one member at a time), then convert: bases are the hello with every member present, grid
    # hellos with a pre_shared_key extension, and parrot hellos
    full = [s for s in chw if all(v == "small" for v in s["f"].values())]
    if len(full) != 1:
        raise vlib.Machinery("C31: the grid has %d hellos with every member present and small (expected 1)" % len(full))
    withpsk = [s for s in chw if s["f"]["psk"] == "small" and s is not full[0]]
    rnd = __import__("random").Random(ctx.seed)
    edit_bases = [full[0]["raw"]] + [s["raw"] for s in rnd.sample(withpsk, min(len(withpsk), 3 if ctx.quick else 25))]
    edit_bases += [e["raw"] for e in evs[:len(ids) * (2 if ctx.quick else 12):(7 if ctx.quick else 3)] if e["ev"] == "CH" and not e["err"]][:4 if ctx.quick else 40]
    edits = ctx.drv("pubedit", {"scns": [{"raw": r} for r in edit_bases]}, prog="gen", timeout=1200)
    evs += edits
    evs += ctx.drv("pubserverhello", {"scns": sh}, prog="gen", timeout=1200)
    evs += ctx.drv("pubcertreq", {"scns": cr}, prog="gen")
    evs += ctx.drv("publists", {"scns": ls}, prog="gen")
    suites = ctx.drv("pubsuites", {}, prog="gen")
    evs += suites
    nsh = 4 if ctx.quick else 12
    per = (len(evs) + nsh - 1) // nsh
    parts = [p for p in (evs[k * per:(k + 1) * per] for k in range(nsh)) if p]
    with cf.ThreadPoolExecutor(max_workers=len(parts)) as ex:
        results = list(ex.map(lambda k: validate(ctx, parts[k], "c31_s%d" % k), range(len(parts))))
    ctx.traces += len(evs)
    rejected = {}
    for k, rej in enumerate(results):
        for i, fails, detail in rej:
            ev = parts[k][i - 1]
            for f in fails:
                rejected.setdefault("%s:%s" % (label(ev), f), []).append((ev, fails, detail))

    # ---- vacuity: the views must actually carry content
    chs = [e for e in evs[:nch] if not e["err"]]
    gridok = [e for e in grid if not e["err"]]
    for fld, member in (("SupportedPoints", "points"), ("SupportedCurves", "groups"), ("KeyShares", "shares"), ("Cookie", "cookie")):
        if not any(e["pub"].get(fld) for e in gridok if e["f"][member] == "small") or \
           not any(not e["pub"].get(fld) for e in gridok if e["f"][member] == "absent"):
            raise vlib.Machinery("C31 vacuity: grid hellos do not show member %s both present and absent in the parsed view" % member)
    for rv in ("absent", "small", "empty"):
        hit = [e for e in gridok if e["f"]["suites"] in ("scsv", "both") and e["f"]["reneg"] == rv]
        if not hit or not all(255 in e["pub"]["CipherSuites"] and e["pub"]["SecureRenegotiationSupported"] for e in hit):
            raise vlib.Machinery("C31 vacuity: no parsed grid hello with TLS_EMPTY_RENEGOTIATION_INFO_SCSV and renegotiation_info %s" % rv)
    # present-but-empty vs absent must be visible in the recorded nil flags (quic_transport_parameters is the member whose
    # encoder tells nil from empty)
    qe = [e for e in gridok if e["f"]["quic"] == "empty"]
    qa = [e for e in gridok if e["f"]["quic"] == "absent"]
    if not qe or not qa or not all(e["nils"]["privA"]["quicTransportParameters"] is False for e in qe) \
            or not all(e["nils"]["privA"]["quicTransportParameters"] is True for e in qa):
        raise vlib.Machinery("C31 vacuity: present-but-empty quic_transport_parameters is not distinguished from absent in the parsed hello")
    for nv in ("ipv4", "ipv6", "bracketed", "zoned", "long"):
        hit = [e for e in gridok if e["f"]["sni"] == nv]
        if not hit or not all(e["pub"]["ServerName"] for e in hit):
            raise vlib.Machinery("C31 vacuity: no parsed grid hello with server_name shape %s" % nv)
    for sv in ("fallback", "grease", "dup"):
        if not any(e["f"]["suites"] == sv for e in gridok):
            raise vlib.Machinery("C31 vacuity: no grid hello with cipher_suites shape %s" % sv)
    for m in ("groups", "sigs", "versions", "shares"):
        if not any(e["f"][m] == "special" for e in gridok):
            raise vlib.Machinery("C31 vacuity: no grid hello with special code points in %s" % m)
    if not any(e["f"]["groups"] == "small" and e["f"]["points"] == "absent" for e in gridok):
        raise vlib.Machinery("C31 vacuity: no grid hello with supported_groups but without ec_point_formats")
    if len(chs) < len(ids) or not any(e["pub"].get("KeyShares") for e in chs) or not any(e["pub"].get("AlpnProtocols") for e in chs):
        raise vlib.Machinery("C31 vacuity: parsed ClientHello views are empty or missing (%d of %d)" % (len(chs), nch))
    full_edits = [e for e in edits if e["base"] == 0 and e["applied"] and not e["err"]]
    members = set(full_edits[0]["pub"].keys()) - {"Raw"} if full_edits else set()
    if not members or {e["member"] for e in full_edits} != members:
        raise vlib.Machinery("C31 vacuity: edits on the all-members hello cover %r, the view has %r" % (
            sorted({e["member"] for e in full_edits}), sorted(members)))
    for need in ("PskIdentities[0].ObfuscatedTicketAge", "PskIdentities[1].Label", "PskBinders[0]", "KeyShares[0].Data", "KeyShares[0].Group",
                 "CipherSuites[1]", "AlpnProtocols[0]", "PskIdentities[-last]", "QuicTransportParameters", "ServerName"):
        if not any(e["path"] == need for e in full_edits):
            raise vlib.Machinery("C31 vacuity: no edit of %s recorded" % need)
    if not any(e["ev"] == "Suite" for e in suites) or not any(e["ev"] == "Keys" for e in suites):
        raise vlib.Machinery("C31 vacuity: no cipher-suite / key views recorded")

    # ---- binding canary: one field of a good record changed, one event with a byte of the re-marshaled hello changed
    good = next(e for e in chs if e["id"] != "tlc-grid" and not any(k.startswith("CH:%s:" % e["id"]) for k in rejected))
    c1 = copy.deepcopy(good); c1["pub2"]["CipherSuites"][0] ^= 1
    c2 = copy.deepcopy(good); c2["privB"]["serverName"] = c2["privB"]["serverName"][:-1]
    c3 = copy.deepcopy(good); c3["m"][-1] ^= 1
    gsh = next(e for e in evs if e["ev"] == "SH" and not e["err"])
    c4 = copy.deepcopy(gsh); c4["q2"]["CipherSuite"] += 1
    gl = next(e for e in evs if e["ev"] == "List" and e["n"] == 2)
    c5 = copy.deepcopy(gl); c5["out"] = c5["out"][:1]
    bad_evs = {id(e) for items in rejected.values() for e, _, _ in items}
    gq = next((e for e in gridok if e["f"]["quic"] == "empty" and id(e) not in bad_evs), None)
    pres = []
    if gq is not None:      # (no accepted base exists when the code under test loses the presence for every such hello)
        c6 = copy.deepcopy(gq); c6["nils"]["privB"]["quicTransportParameters"] = True     # rebuilt private form lost "present but empty"
        c7 = copy.deepcopy(gq); c7["nils"]["pub3"]["QuicTransportParameters"] = True
        pres = [c6, c7]
    ge = next((e for e in full_edits if e["path"] == "PskIdentities[0].ObfuscatedTicketAge" and id(e) not in bad_evs), None)
    if ge is not None:     # the private form still carries the old ticket age / the re-parsed hello does
        c8 = copy.deepcopy(ge); c8["priv"]["pskIdentities"][0]["obfuscatedTicketAge"] = ge["before"]["PskIdentities"][0]["ObfuscatedTicketAge"]
        c9 = copy.deepcopy(ge); c9["q"]["PskIdentities"] = ge["before"]["PskIdentities"]
        crej_e = validate(ctx, [ge, c8, c9], "c31_canary_edit")
        got_e = {}
        for i, f, _ in crej_e:
            got_e.setdefault(i, set()).update(f)
        if not (set(got_e) == {2, 3} and "private-form-does-not-reflect-the-edited-view" in got_e[2] and "marshal-does-not-reflect-the-edited-view" in got_e[3]):
            raise vlib.Machinery("C31 binding canary (edits) failed: %r" % (crej_e,))
    crej = validate(ctx, [good, c1, c2, c3, gsh, c4, gl, c5] + pres, "c31_canary")
    got = {}
    for i, f, _ in crej:
        got.setdefault(i, set()).update(f)
    if not (set(got) - {9, 10} == {2, 3, 4, 6, 8}
            and (not pres or ("private-public-private-loses-presence" in got.get(9, ()) and "reparse-after-clearing-raw-loses-presence" in got.get(10, ()))) and "public-private-public-lossy" in got[2] and "private-public-private-lossy" in got[3]
            and "unmarshal-marshal-differs" in got[4] and "reparse-after-clearing-raw-differs" in got[6] and "list-conversion-lossy" in got[8]):
        raise vlib.Machinery("C31 binding canary failed: %r" % (crej,))

    # ---- reproduce and report
    for sig, items in sorted(rejected.items()):
        ev, fails, detail = items[0]
        if ev["ev"] == "Edit":
            again = [e for e in ctx.drv("pubedit", {"scns": [{"raw": edit_bases[ev["base"]]}]}, prog="gen", name="again") if e["path"] == ev["path"]]
        elif ev["ev"] == "CH" and ev["id"] == "tlc-grid":
            again = ctx.drv("pubhelloraw", {"scns": [{"f": ev["f"], "raw": ev["raw"]}]}, prog="gen", name="again")
        elif ev["ev"] == "CH":
            again = ctx.drv("pubhello", {"ids": [ev["id"]], "n": 3}, prog="gen", name="again")
        elif ev["ev"] == "SH":
            again = ctx.drv("pubserverhello", {"scns": [{k.lower(): v for k, v in ev["scn"].items()}]}, prog="gen", name="again")
        elif ev["ev"] == "CR":
            again = ctx.drv("pubcertreq", {"scns": [{k.lower(): v for k, v in ev["scn"].items()}]}, prog="gen", name="again")
        elif ev["ev"] == "List":
            again = [e for e in ctx.drv("publists", {"scns": ls}, prog="gen", name="again") if e["kind"] == ev["kind"]]
        else:
            again = ctx.drv("pubsuites", {}, prog="gen", name="again")
        rj = validate(ctx, again, "c31_again")
        if not any(sig == "%s:%s" % (label(again[i - 1]), f) for i, fs, _ in rj for f in fs):
            raise vlib.Machinery("C31: rejection %s was not reproduced on a fresh run" % sig)
        replay = {"event": ev["ev"], "fails": fails, "detail": detail, "cases": len(items)}
        if ev["ev"] == "CH":
            replay["id"] = ev["id"]; replay["raw_hex"] = bytes(ev["raw"]).hex()
            if "f" in ev:
                replay["members"] = ev["f"]; replay["all_members_of_class"] = [e["f"] for e, _, _ in items[:20]]
        elif ev["ev"] in ("SH", "CR"):
            replay["scn"] = ev["scn"]
        elif ev["ev"] == "Edit":
            replay["path"] = ev["path"]; replay["base_hello_hex"] = bytes(edit_bases[ev["base"]]).hex()
            replay["how"] = "p := tls.UnmarshalClientHello(base); edit p.<path>; p.Raw = nil; p.Marshal() / conversion to the private form"
        ctx.finding(sig, "conversion rejected by spec/PubViews.tla: %s %s" % (fails, json.dumps(detail)), replay)

    cov = {"evaluations": len(evs), "distinct_nontrivial": len({e["id"] for e in chs}) + len(chw) + len(sh) + len(cr) + len(ls) + len(suites),
           "rule": "evaluations = logged conversion bundles (each: both conversion directions, Unmarshal+Marshal, clear-Raw re-marshal and re-parse) judged by TLC; distinct = ClientHelloIDs + TLC-enumerated ServerHello/CertificateRequest/list scenarios + cipher-suite and key views",
           "samples": [{"clienthello": good["id"], "fields": sorted(good["pub"].keys())[:12]}, {"serverhello_scenario": sh[len(sh) // 2]},
                       {"list_scenario": ls[-1]}],
           "clienthellos": nch, "view_edits": sum(1 for e in edits if e["applied"]), "edit_bases": len(edit_bases),
           "edited_members_on_full_hello": len(members), "clienthello_presence_scenarios": len(chw), "presence_coverage": "all pairs" if ctx.quick else "all triples", "serverhello_scenarios": len(sh), "certreq_scenarios": len(cr), "list_scenarios": len(ls),
           "suite_views": sum(1 for e in suites if e["ev"] == "Suite"), "key_views": sum(1 for e in suites if e["ev"] == "Keys"),
           "exhaustive": False, "exhaustive_part": "the field-presence grid of PubViews_MC (every combination, emitted by TLC)"}
    return "other", cov, [
        "TLA+ acts as an equality oracle over dumps; the conversions themselves are not modelled",
        "reflection dumps cannot distinguish nil from empty slices and render functions/pointers as identities",
        "PubClientHandshakeState / FinishedHash conversions (hash states, live connection pointers) are not covered",
        "private fields without a public counterpart are listed in PubViews!NoCounterpart and excluded"]
