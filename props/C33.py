"""C33 - hostile server input never crashes or hangs a uTLS client.
TLA+: spec/Flight.tla (flight tree, mutation operators, client protocol position), Flight_MC (enumeration),
Flight_Trace (judgement of the recorded outcomes). Harness: harness/cmd/flight (hooked in-package server,
VerifOverride.Outgoing rewrites the server's plaintext handshake messages before transcript + encryption)."""
import random
import flight, vlib


def cases_for(ctx):
    ids = flight.parrots(ctx)
    nalg = flight.compalgs(ctx)   # certificate compression algorithms each parrot advertises
    # (parrot, flags, first server message that is mutated)
    rep = [("Chrome-133", [], 1), ("Chrome-133", ["ccert", "alps", "sku"], 1), ("Chrome-133", ["hrr"], 1),
           ("Firefox-120", ["sku"], 1), ("Firefox-120", ["v12"], 1), ("Chrome-100_PSK", ["psk"], 1), ("Chrome-58", ["v12"], 1),
           ("Safari-16.0", ["ccert"], 3)]     # zlib; SH and EE of this parrot add nothing new: start at the (compressed) certificate
    lite = set()   # thorough: inserted messages / extensions only in the representative cases and in every parrot's plain case
    if ctx.quick:
        rnd = random.Random(ctx.seed)
        extra = rnd.choice([i for i in ids if i not in {p for p, f, k in rep}])
        rep.append((extra, rnd.choice([[], ["hrr"], ["v12"], ["ccert", "alps"]]), 1))
        sel = rep
    else:
        sel = list(rep)
        have = {(p, tuple(f)) for p, f, k in sel}
        for i in ids:
            for fl in ([], ["hrr", "sku"], ["v12"], ["ccert", "alps", "creq"]):
                if (i, tuple(fl)) not in have:
                    sel.append((i, fl, 1))
                    if fl:
                        lite.add((i, tuple(fl)))
            # every further algorithm the parrot advertises: the compressed certificate (and what follows) once more
            for a in range(1, min(3, nalg.get(i, 0))):
                sel.append((i, ["ccert", "calg%d" % a], 3))
            if "PSK" in i:
                sel.append((i, ["psk"], 1))
    out = [{"name": "%s[%s]" % (p, "+".join(f)), "parrot": p, "flags": f, "from": k, "lite": (p, tuple(f)) in lite} for p, f, k in sel]
    # post-handshake phase (server sequences x client->server transport x Read/Write/Close) on TLS 1.3 cases
    for c in out:
        if c["flags"] == [] and (c["parrot"] in ("Chrome-133", "Firefox-120") or not ctx.quick):
            c["post"] = 3 if (c["parrot"] == "Chrome-133" and not ctx.quick) else 2
        if c["parrot"] == "Firefox-120" and c["flags"] == ["sku"] and ctx.quick:
            c["post"] = 2
        if c["flags"] == ["v12"] and (c["parrot"] == "Chrome-58" or (c["parrot"] == "Firefox-120" and not ctx.quick)):
            c["recs"] = True          # raw records in place of the server's Finished record / after the handshake
    # the same raw records under every TLS <= 1.2 cipher suite class (AEAD with explicit nonce, AEAD without, CBC, 3DES)
    suites = ["cca8", "c013"] if ctx.quick else ["c02f", "c030", "cca8", "c013", "009c", "002f", "000a"]
    for p in (["Chrome-58"] if ctx.quick else ["Chrome-58", "Firefox-120", "iOS-14"]):
        for cs in suites:
            out.append({"name": "%s[v12+cs=%s]" % (p, cs), "parrot": p, "flags": ["v12", "cs=" + cs], "from": 99, "recs": True})
    return out


def run(ctx):
    cov = flight.run_connection_family(ctx, "C33", "s", cases_for(ctx), deadline_ms=700)
    return "exploration", cov, [
        "only STRUCTURED hostile input is explored: one grammar-node mutation or one inserted message per connection, derived from captured real flights; arbitrary byte strings, raw record streams and coverage-guided fuzzing are not covered by this technique family",
        "for a CompressedCertificate the operators are applied both to the container and to the Certificate message inside it; the latter is then compressed correctly (declared length = real length) by the harness's server role with an algorithm the parrot advertises (thorough: each of them)",
        "post-handshake phase: after a TLS 1.3 handshake + ping/pong the server sends every sequence (bounded length) over {KeyUpdate requested / not requested, NewSessionTicket (the connection's ticket again, with a KeyUpdate(not requested) in the same record to keep the key schedules in step), application data, a record that does not authenticate, close}, never reads again, the client's outgoing direction is ok / blocked until the deadline / failing, then Read (until an error), Write, Close; Close is allowed the library's own 5 s close_notify write allowance",
        "raw records: content types {0,20,21,22,23,24,255} x body 0..20 bytes in place of the Finished record after ChangeCipherSpec (TLS 1.2, one case per cipher suite class) and right after the handshake",
        "mutations are applied to the plaintext handshake message inside the hooked in-package server (verifOutgoing), so the server transcript and record protection stay consistent; the record layer itself is not mutated",
        "the message layout of a case is the same in every connection (fixed PKI, RSA leaf); TLC checks this on two captures and on every live message it judges",
        "deadline verdicts: transport deadline %d ms, tolerance 1000 ms (TLA+ SlackMs), watchdog 3 s later; a row that is late or hung in the parallel pass is executed again calmly and judged again, a timing rejection must reproduce in a fresh process; allocation verdicts: bytes allocated by the whole process during one serial connection vs the untouched flight + 1 MiB (TLA+ AllocSlackKB)" % cov["deadline_ms"],
        "TLC, the Go toolchain and the hooks' faithful placement are trusted",
    ]
