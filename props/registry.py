"""What MANIFEST.json claims. lib/mkmanifest.py turns this into MANIFEST.json."""
HOOK_COMMITS = ["7356e9f"]

MC = "model_checking"
CLAIMED = {
 "C03": dict(level=MC, technique="TLA+ reference encoders (TLSWire/Parrots) evaluated by TLC over recorded wire ClientHellos (trace validation)",
   text="Every predefined parrot's real wire ClientHello (several connections, two SNI lengths, OmitEmptyPsk on/off) is judged by TLC against the spec dumped separately from UTLSIdToSpec: legacy version, suites, compression, extension order (multiset + fixed GREASE/padding/PSK positions for shuffling parrots) and each body via the TLA+ reference encoders. Sampling over connections, exhaustive over IDs.",
   note="Trusts the reflection dump of the spec structs, TLC, and that TLSWire's encoders state the RFC formats; the parrot table itself is taken as the definition of the fingerprint."),
}
NOT_APPLICABLE = {}
