"""What MANIFEST.json claims. lib/mkmanifest.py turns this into MANIFEST.json."""
HOOK_COMMITS = ["7356e9f", "eeb3885", "c6d7b98"]

MC = "model_checking"
NEGO_NOTE = ("Trusts: TLC; the in-tree Go server (with add-only verif overrides) as the peer; the harness logging faithfully "
             "(binding canaries: a forged unoffered suite / a forged client version in a recorded good trace must be rejected, else exit 2); "
             "the offer is parsed from the wire ClientHello by the TLA+ text, not by Go.")
CLAIMED = {
 "C03": dict(level=MC, technique="TLA+ reference encoders (TLSWire/Parrots) evaluated by TLC over recorded wire ClientHellos (trace validation)",
   text="Every predefined parrot's real wire ClientHello (several connections, two SNI lengths, OmitEmptyPsk on/off) is judged by TLC against the spec dumped separately from UTLSIdToSpec: legacy version, suites, compression, extension order (multiset + fixed GREASE/padding/PSK positions for shuffling parrots) and each body via the TLA+ reference encoders. Sampling over connections, exhaustive over IDs.",
   note="Trusts the reflection dump of the spec structs, TLC, and that TLSWire's encoders state the RFC formats; the parrot table itself is taken as the definition of the fingerprint."),
 "C10": dict(level=MC, technique="TLC enumeration of the compliant negotiation grid (NegoMC c10) + replay on real client/server + TLC trace validation (NegoTrace progress rules)",
   text="TLC enumerates, from the dumped parrot specs and cipher-suite tables, the full product version x suite x group (incl. groups forcing HelloRetryRequest) x certificate kind x ALPN that each predefined parrot offers and the server implements, checks at model level that a compliant flight never gives the client a reason to abort, and every scenario is executed on the real code; TLC then requires completion + data echo whenever the server's recorded plaintext flight was acceptable, and allows a server refusal only where ServerCanSelect is false. Exhaustive over predefined parrots; randomized/custom specs are not in this grid.",
   note=NEGO_NOTE),
 "C11": dict(level=MC, technique="TLC trace validation of both ConnectionStates and exporter outputs (Negotiation!AgreeProblems) over the replayed compliant grid",
   text="For every successful handshake of the compliant grid (quick: a seed-chosen third plus all ALPN scenarios; thorough: all) and RemoveSNIExtension variants, TLC compares version, suite, ALPN, curve, DidResume, ECHAccepted and server name (against the SNI parsed from the wire) and random exporter triples byte by byte.",
   note=NEGO_NOTE + " Exporters the client refuses by the documented upstream rule (renegotiation enabled / no EMS) are not compared."),
 "C12": dict(level=MC, technique="TLC enumeration of single server deviations (NegoMC c12) + replay with a self-consistent hooked server + TLC trace validation (Negotiation!Check*)",
   text="Per parrot and base version TLC enumerates one deviation of the server from a compliant choice (unoffered suite, key-share group, HRR group, TLS1.2 curve, ALPN, compression method, PSK identity, session id not echoed); the model-level invariants show every deviation is detected by the specified client decisions and that a completed handshake only carries offered values; each scenario runs against the real client with a hooked server whose transcript contains the deviating message, and TLC rejects any trace in which the client completed or reports an unoffered value.",
   note=NEGO_NOTE + " Certificate-compression algorithm is covered by C21's check; TLS1.2/1.3 suite-id confusion is not forced (the server cannot instantiate it)."),
 "C13": dict(level=MC, technique="TLC table check AcceptRange subset of Advertised + enumeration of server version behaviours (NegoMC c13) + replay + TLC trace validation",
   text="Every parrot x server version 1.0-1.3 x {honours supported_versions, negotiates from legacy_version (hook)} x downgrade sentinel {default, suppressed, forced (hook)} is executed; the advertised set is parsed from the wire hello in TLA+; a completion at an unadvertised version or despite the sentinel is rejected. Exhaustive over predefined parrots.",
   note=NEGO_NOTE),
 "C17": dict(level=MC, technique="TLC enumeration of HelloRetryRequests (NegoMC c17/c12) + replay + TLC diff of both wire ClientHellos (Negotiation!CH2Problems)",
   text="Per TLS 1.3 parrot every offered classical group without a share x cookie {none,1,255 bytes} is forced as HRR; TLC diffs the two recorded ClientHellos (only key_share, cookie, padding may change; one fresh share of the requested group; cookie echoed; order kept) and requires completion; HRRs naming an unoffered or already-shared group must abort.",
   note=NEGO_NOTE),
 "C18": dict(level=MC, technique="TLC key-share grammar/size check on every wire hello + replay with the server forced to each offered group + TLC freshness formula over recorded hellos",
   text="Every TLS 1.3 parrot x every offered group the server implements (share present or via HRR) must complete; share sizes per group and share groups subset of supported_groups are judged on the wire bytes in TLA+; across 16 (quick) / 128 (thorough) connections per parrot no share, random or session id repeats.",
   note=NEGO_NOTE),
 "C16": dict(level=MC, technique="TLC evaluation of the GREASE-ECH grammar/candidate/freshness formulas (C16.tla) over recorded hellos + CH2Problems on HRR traces",
   text="64 (quick) / 512 (thorough) wire hellos of every parrot whose dumped spec carries a GREASE ECH extension are judged in TLA+: outer type, (KDF, AEAD) from the descriptor's candidate list, 32-byte key, payload length = candidate + 16, freshness of key / payload / config id; every HelloRetryRequest scenario of those parrots must resend identical extension bytes.",
   note=NEGO_NOTE),
 "C21": dict(level=MC, technique="TLC model check of the decompression read loop (CertComp.tla: every chunking, both read policies) + replay of every terminal state with real encoders + TLC trace validation (CertCompTrace)",
   text="The model treats the decompressor as a chunk producer and shows that 'read full, then expect EOF' reaches an allowed outcome for every chunking while the single Read of the unrepaired code is refuted; every terminal state of the model (algorithm x advertised x length x declared x chunking x valid x same) is mapped to zlib/brotli/zstd encoder settings (levels, flush points, chain sizes, corruptions, huge/unknown) and replayed through a hooked server; TLC accepts only outcomes in Allowed(scenario) (accept / bad_certificate / abort).",
   note="Trusts the hooked in-tree server and the vendored encoders; handshakes that hit the transport deadline are re-run alone and are exit 2, never a verdict."),
 "C24": dict(level=MC, technique="TLC exhaustive check of the varint/transport-parameter codec laws on a boundary lattice (Varint_MC) + real Append/AppendWithLen/Read/Marshal outputs validated by TLC (Varint_Trace)",
   text="Dec(Enc(x))=x, minimal length, AppendWithLen widths and refusal are model-checked over {0,1,0x3f,0x40,0xff}^8 and parameter lists up to length 3; the real quicvarint functions and TransportParameters.Marshal are run on the lattice plus seeded values/lists (GREASE, fake ids) and every result is compared by TLC with the TLA+ codec (values as 8-byte sequences).",
   note="Trusts TLC, the verif accessors (thin wrappers of internal/quicvarint) and faithful logging (binding canaries). 62-bit space is sampled + lattice, not symbolic."),
 "C30": dict(level=MC, technique="TLC refinement check of the mutex-protected stream (Prng_MC, torn read found without mutex) + sequential and concurrent real runs validated/linearised by TLC (Prng_Trace)",
   text="Lock/copy/unlock refines the atomic stream model; helper guards (Intn/Int63n/Range/FlipWeightedCoin) are checked on a TLC-emitted boundary grid for many seeds in three separate processes (determinism), salted seeds as a function of (seed, salt), concurrent Reads under -race are linearised against the reference stream.",
   note="Trusts TLC, the race detector, the verif accessor for the unexported prng. Known finding: salts differing only in trailing NUL bytes collide."),
}
NOT_APPLICABLE = {}
