"""C18 - key shares are fresh, correctly sized, and backed by the matching private key.
TLA+: spec/Negotiation.tla ShareProblems / ShareSize on every wire ClientHello (first and second), the compliant grid restricted
to TLS 1.3 with the server forced to each offered group (share present -> direct, absent -> HelloRetryRequest): the client must
complete (progress) whichever offered group the server selects; freshness of shares / randoms / session ids across connections
is a set-cardinality formula evaluated by TLC (spec/C18Fresh.tla)."""
import re
import nego_common as nc, vlib

def kslabel(s):
    """Signature suffix of a chosen key-share list: which kind of share precedes the selected one."""
    if s.get("fp_copy"):
        return ":fpcopy"
    if s.get("edit"):
        return ":built-first"
    ks = s.get("ks_list") or []
    if not ks:
        return ""
    if len(ks) == 1:
        return ":ks=only"
    return ":ks=second-after-%s" % ("hybrid" if ks[0] in (4588, 25497) else "classical")

def run(ctx):
    def subset(scns):
        out = [s for s in scns if s["ver"] == 772 and not s["alpn"] and s["cert"] == "ecdsa"]
        if ctx.quick:
            seen, o2 = set(), []
            for s in out:
                if (s["id"], s["group"]) not in seen:
                    seen.add((s["id"], s["group"])); o2.append(s)
            out = o2
        # the same offers from a custom spec that lists the key shares in the opposite order (every share, whatever
        # its position, must stay backed by its private key)
        base = out
        out = out + [dict(x, ks_reverse=True) for x in base]
        # custom specs with a chosen key-share list: only the group the server will select, and that group listed
        # second after another offered one (classical or hybrid): whichever shares a spec lists, each is backed by its key
        groups_of = {}
        for x in base:
            groups_of.setdefault(x["id"], set()).add(x["group"])
        seen = set()
        for x in base:
            if (x["id"], x["group"]) in seen:
                continue
            seen.add((x["id"], x["group"]))
            out.append(dict(x, ks_list=[x["group"]]))
            # the hello is built explicitly first and Handshake builds it again over the same spec: the keys generated
            # by the first build must survive the second
            out.append(dict(x, edit="build-only"))
            out.append(dict(x, edit="build-nosession"))
            # a fingerprinted copy of the parrot's own hello (captured shares must not be re-sent: the copy generates
            # its own keys and holds the private key of every share, hybrid ones included)
            if x["group"] in (4588, 29) and "Randomized" not in x["id"]:
                out.append(dict(x, fp_copy=True))
            for h in sorted(groups_of[x["id"]] - {x["group"]}):
                if h in (23, 4588) or (h == 29 and x["group"] == 23):
                    out.append(dict(x, ks_list=[h, x["group"]]))
        return out
    kxstat = {}
    def kx_scenarios():
        # the hybrid group the in-tree server lacks (X25519Kyber768Draft00): answered by the test server's key-exchange
        # hook with the layout spec/Negotiation.tla HybridLayout prescribes, and with every other layout (the client
        # must then fail: its keys differ)
        k, _, res = nc.gen_scenarios(ctx, "c18kx")
        kxstat["model"] = (res.generated, res.distinct)
        if not k or not any(x["mode"] == "compliant" for x in k) or not any(x["mode"] != "compliant" for x in k):
            raise vlib.Machinery("NegoMC_c18kx produced no compliant / no deviating hybrid scenario (no parrot offers group 25497 any more?)")
        if ctx.quick:
            k = [x for x in k if x["suite"] == 4865]
        # the same from a fingerprinted copy of the parrot's hello
        k = k + [dict(x, fp_copy=True) for x in k if x["mode"] == "compliant"]
        return k
    scns, events, rej, unadv, mc = nc.run_nego(ctx, "c10", subset=subset, extra_scn=kx_scenarios, shards=8)
    kx = [s for s in scns if s.get("kx_secret")]
    resk = {e["sc"]: e for e in events if e["ev"] == "Result"}
    kx_ok = sum(1 for s in kx if s["mode"] == "compliant" and resk[s["sc"]]["cok"] and resk[s["sc"]]["echo"])
    kx_refused = sum(1 for s in kx if s["mode"] != "compliant" and not resk[s["sc"]]["cok"])
    if (kx_ok == 0 or kx_refused == 0) and not any(r["scn"].get("kx_secret") and r["kind"] in ("safety", "progress") for r in rej):
        # nothing completed / nothing was refused although the trace specification has no complaint: the scenarios did not run
        raise vlib.Machinery("vacuous: hybrid key exchange by the test server completed=%d, deviating layouts refused=%d" % (kx_ok, kx_refused))
    for r in rej:
        d = nc.sig_detail(r["detail"])
        s = r["scn"]
        if s.get("kx_secret") and r["kind"] in ("safety", "progress"):
            ctx.finding("hybrid:%s:%s:group-%d:%s:secret=%s:kem=%s" % (r["kind"], d, s["group"], re.sub(r"@\d+", "@seed", s["id"]), s["kx_secret"], s["kx_kem"]),
                        "hybrid group %d answered by the test server with share %s, secret %s, KEM %s (prescribed: %s): %s %s; client error: %s"
                        % (s["group"], s["kx_share"], s["kx_secret"], s["kx_kem"], "yes" if s["mode"] == "compliant" else "no", r["kind"], d,
                           (r["result"] or {}).get("cerr", "")), {"scenario": nc.scn_brief(s), "result": r["result"]})
            continue
        if r["kind"] in ("order", "timeout", "calibration"):
            raise vlib.Machinery("trace problem: %r" % (r,))
        if r["kind"] == "share":
            ctx.finding("share:%s:%s" % (d, s["id"]), "key share of %s malformed: %s" % (s["id"], d), {"scenario": nc.scn_brief(s)})
        elif r["kind"] == "progress":
            err = (r["result"] or {}).get("cerr", "")
            grp = ("shared-group-%d" % s["group"] if "invalid server key share" in err
               else "hrr-to-hybrid-group-%d" % s["group"] if "CurvePreferences includes unsupported curve" in err else "other")
            ctx.finding("progress:%s:%s:%s:v%d%s" % (d, grp, re.sub(r"@\d+", "@seed", s["id"]), s["ver"], ":ksrev" if s.get("ks_reverse") else kslabel(s)),
                        "server selected offered group %d and %s did not complete: %s (%s)" % (s["group"], s["id"], d, err),
                        {"scenario": nc.scn_brief(s), "result": r["result"]})
    # freshness: n connections per parrot; TLC counts distinct shares / randoms / session ids
    import data
    n = 16 if ctx.quick else 128
    ids = sorted({s["id"] for s in scns})
    # ... and of connections whose spec is fingerprinted from one captured hello of the parrot (a captured share must
    # never be sent again)
    fpids = [i for i in ids if "Randomized" not in i and "Golang" not in i]
    cases = [{"id": i, "sni": "example.com", "n": n, "omit": True} for i in ids] + \
            [{"id": i, "sni": "example.com", "n": max(4, n // 4), "omit": True, "fp": True, "tag": "fp"} for i in fpids]
    hel = [e for e in ctx.drv("hellos", {"cases": cases}) if e["ev"] == "Hello" and e["sent"]]
    nfp = sum(1 for e in hel if e.get("tag") == "fp")
    if nfp == 0:
        raise vlib.Machinery("vacuous: no hello from a fingerprinted copy was sent")
    ctx.write_ndjson("c18_hellos.ndjson", [{"id": e["id"] + ("/fingerprinted-copy" if e.get("tag") == "fp" else ""), "raw": e["raw"]} for e in hel])
    res = ctx.tlc("C18Fresh", timeout=900)
    done = res.tagged("DONE")
    if not done or done[0] != len(hel):
        raise vlib.Machinery("C18Fresh did not consume all hellos: %r" % (done,))
    for st in res.tagged("STALE"):
        ctx.finding("stale:%s" % st, "per-connection material repeated across connections: %s" % st, {"what": st})
    ctx.traces += len(hel)
    results = {e["sc"]: e for e in events if e["ev"] == "Result"}
    ok = sum(1 for s in scns if results[s["sc"]]["cok"])
    hrr = sum(1 for s in scns if results[s["sc"]]["nch"] == 2)
    if ok == 0 or hrr == 0:
        raise vlib.Machinery("vacuous: ok=%d hrr=%d" % (ok, hrr))
    cov = {"evaluations": len(scns) + len(hel), "distinct_nontrivial": len(scns),
           "rule": "every TLS 1.3 parrot x every offered group the server implements (quick: one suite per group; thorough: every suite); plus %d fresh hellos per parrot for the freshness formula; distinct = (parrot, group[, suite]) scenarios" % n,
           "samples": [nc.scn_brief(s) for s in scns[:3]], "completed": ok, "via_hrr": hrr, "fresh_hellos": len(hel), "fresh_hellos_from_fingerprinted_copies": nfp,
           "hybrid_kx_by_test_server": {"scenarios": len(kx), "prescribed_layout_completed": kx_ok, "deviating_layout_refused": kx_refused,
                                        "model_states": kxstat.get("model")}, "exhaustive": not ctx.quick}
    return "model_checking", cov, ["QUIC empty legacy session id is checked by C23", "randomized specs: C09"]
