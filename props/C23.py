"""C23 - QUIC clients complete the handshake through the event API and never hang.

TLA+: spec/UQuic.tla (mechanism: caller vs handshake goroutines over blockedc/signalc/cancelc, event queue),
      spec/UQuic_MC.tla  (free pump: safety + liveness, repaired and as-coded mechanism),
      spec/UQuic_Scn.tla (planned pump: emits the pump schedules that are replayed on the real code),
      spec/UQuic_Trace.tla (recorded runs of UQUICConn + QUICServer must be behaviours of UQuic with FixEarlyReturn = TRUE).
Harness: harness/cmd/quic (quicpump) - performs the calls under a watchdog and logs; no expected values there."""
import concurrent.futures as cf
import json, os, random, re, shutil, statistics, tempfile
import vlib

RERUNS = 6                   # a rejected trace is re-run up to RERUNS times (fresh processes); see _run
TIMEOUT_MS = 3000           # watchdog per call; checked below against the measured typical call time (>= 50x)
ALL_BUILDS = '{"ok", "noname", "unset", "minver12"}'
MC_ACTIONS = ["Entry", "Build", "HsWrite", "HsSecret", "HsTP", "HsCheck", "HsReadHave", "HsReadWait", "HsDone", "HsTail",
              "CloseB", "CloseS", "WaitSendBlocked", "WaitSendSignal", "WaitCancelled", "RecvBlockedClosed",
              "RecvSignalClosed", "HdPost", "CallStart", "CallNext", "CallDeliver", "CallCancel", "CallClose"]


def mkcfg(ctx, base, name, **consts):
    """Writes scratch/<name>.cfg = spec/<base>.cfg with some CONSTANTS replaced."""
    src = open(os.path.join(ctx.scratch, base + ".cfg")).read()
    for k, v in consts.items():
        src, n = re.subn(r"(?m)^(\s*%s\s*=).*$" % re.escape(k), lambda m: m.group(1) + " " + v, src)
        if n != 1:
            raise vlib.Machinery("cfg %s has no constant %s" % (base, k))
    with open(os.path.join(ctx.scratch, name + ".cfg"), "w") as f:
        f.write(src)
    return name


def shm_extra(ctx):
    """TLC's disk structures on tmpfs when available (a later -metadir overrides the runner's)."""
    if os.path.isdir("/dev/shm") and os.access("/dev/shm", os.W_OK):
        d = tempfile.mkdtemp(prefix="verif-c23-", dir="/dev/shm")
        ctx._shm = getattr(ctx, "_shm", []) + [d]
        return ["-metadir", d]
    return []


def uninjected(o):
    """No Cancel, and Close only as the last two calls (plans that fall behind the end of a schedule collapse onto it)."""
    ops = o["ops"]
    return not any(x.startswith("Cancel.") for x in ops) and not any(x.startswith("Close.") for x in ops[:-2])


def parse_op(code):
    op, side, k = code.split(".")
    return {"op": op, "side": side, "k": int(k)}


def scenarios_of(res, tag):
    """Unique (cfg, ops) scenarios printed by UQuic_Scn."""
    out = {}
    for o in res.tagged(tag):
        if not isinstance(o, dict):
            raise vlib.Machinery("unparsable %s line: %r" % (tag, o))
        key = json.dumps([o["cfg"], o["ops"]], sort_keys=True)
        out.setdefault(key, o)
    return [out[k] for k in sorted(out)]


def run_pump(ctx, scs, name, race=True):
    """Runs the scenarios on the real code; returns ({id: [events]}, race_report or None)."""
    inp = {"timeout_ms": TIMEOUT_MS, "scenarios": [{"id": s["id"], "cfg": s["cfg"], "ops": s["ops"]} for s in scs]}
    racerep = None
    try:
        evs = ctx.drv("quicpump", inp, race=race, prog="quic", name=name, timeout=1500)
    except vlib.Machinery:
        err = getattr(ctx, "last_drv_stderr", "") or ""
        if race and "DATA RACE" in err:
            racerep = err
            evs = ctx.drv("quicpump", inp, race=False, prog="quic", name=name + "-norace", timeout=1500)
        else:
            raise
    by = {}
    for e in evs:
        by.setdefault(e["sc"], []).append(e)
    for k in by:
        by[k].sort(key=lambda e: e["i"])
    return by, racerep


def trace_row(sc, evs):
    return {"id": sc["id"], "cfg": sc["cfg"],
            "evs": [{"op": e["op"], "side": e["side"] or "-", "ret": e["ret"] or "-", "kind": e["kind"], "level": e["level"],
                     "mt": e["mt"], "hrr": e["hrr"], "sid": e["sid"], "junk": e["junk"], "u": e["u"], "rem": e["rem"],
                     "k": e["k"], "ml": e["ml"], "complete": e["complete"], "builderr": e["builderr"]} for e in evs]}


def validate(ctx, rows, cfg="UQuic_Trace", shards=1, verbose=False, tagname="t"):
    """TLC judges the rows; returns (accepted ids, {id: index of the first unexplained event} when verbose)."""
    if not rows:
        return set(), {}
    shards = max(1, min(shards, len(rows)))
    per = (len(rows) + shards - 1) // shards

    def one(k):
        part = rows[k::shards]      # round robin: the long byte-by-byte traces spread over the shards
        if not part:
            return None
        mod = "UQuic_Trace_%s%d" % (tagname, k)
        src = open(os.path.join(ctx.scratch, "UQuic_Trace.tla")).read()
        src = src.replace("MODULE UQuic_Trace", "MODULE " + mod).replace("uquic_traces.ndjson", mod + ".ndjson")
        open(os.path.join(ctx.scratch, mod + ".tla"), "w").write(src)
        ctx.write_ndjson(mod + ".ndjson", part)
        c = cfg
        if verbose:
            c = mkcfg(ctx, cfg, cfg + "_verbose", Verbose="TRUE")
        return ctx.tlc(mod, cfg=c, workers=4, timeout=1500, heap="3g", extra=shm_extra(ctx))
    with cf.ThreadPoolExecutor(max_workers=shards) as ex:
        results = list(ex.map(one, range(shards)))
    acc, at = set(), {}
    for res in results:
        if res is None:
            continue
        if res.violated:
            raise vlib.Machinery("trace validation: model invariant %s violated while following a trace" % res.violated)
        for v in res.tagged("ACC"):
            acc.add(int(v))
        for line in res.out.splitlines():
            m = re.match(r'^<<"AT", (\d+), (\d+)>>', line)
            if m:
                i, l = int(m.group(1)), int(m.group(2))
                at[i] = max(at.get(i, 0), l)
    return acc, at


def sig_of(sc, evs, at):
    """Signature of a rejected trace: the first event no behaviour of the model explains."""
    i = at.get(sc["id"], 1)
    if 1 <= i <= len(evs):
        e = evs[i - 1]
        what = "%s:%s:%s" % (e["op"], e["side"] or "-", e["ret"] or "-")
        if e["op"] == "Next":
            what += ":" + e["kind"]
    else:
        what = "end"
    inj = sc["cfg"]["build"]
    if sc["cfg"]["build"] == "ok":
        inj = "ok" + ("+hrr" if sc["cfg"]["hrr"] else "") + ("+srvRefuse" if sc["cfg"]["srvRefuse"] else "") + ("+cliRefuse" if sc["cfg"]["cliRefuse"] else "")
    if sc["cfg"].get("reuse"):
        inj += "+reusedbuf"          # HandleData was fed from one receive buffer that the caller overwrites after every call
    return "%s:%s" % (what, inj), i


def run(ctx):
    q = ctx.quick
    seed = ctx.seed
    pool = cf.ThreadPoolExecutor(max_workers=8)
    try:
        return _run(ctx, q, seed, pool)
    finally:
        pool.shutdown(wait=False)
        for d in getattr(ctx, "_shm", []):
            shutil.rmtree(d, ignore_errors=True)


def finish_early(ctx, scs, acc, repro_info):
    return "model_checking", {"evaluations": len(scs), "distinct_nontrivial": len(scs), "accepted": len(acc),
                              "rule": "run cut short: reproduced rejections and no accepted completed handshake (canaries / vacuity not evaluated)",
                              "rejected_signatures": sorted(set(repro_info.values())), "samples": [], "exhaustive": False}, []


def replay_one(ctx):
    """./check C23 --replay replays/C23/<x>.json : the recorded schedule again, twice, judged by TLC."""
    rp = ctx.replay.get("replay", ctx.replay)
    sc = {"id": 1, "family": "replay", "cfg": rp["cfg"], "ops": rp["ops"]}
    verdicts = []
    for k in range(2):
        runs, _ = run_pump(ctx, [sc], "c23-replay%d" % k, race=False)
        acc, at = validate(ctx, [trace_row(sc, runs[1])], verbose=True, tagname="p%d" % k)
        ctx.traces += 1
        verdicts.append((1 in acc, sig_of(sc, runs[1], at)[0], runs[1]))
    if not verdicts[0][0] and not verdicts[1][0] and verdicts[0][1] == verdicts[1][1]:
        ctx.finding(verdicts[0][1], "replayed schedule is rejected by UQuic_Trace (twice)", {"cfg": sc["cfg"], "ops": sc["ops"],
                    "trace": [{k: v for k, v in ev.items() if k in ("i", "op", "side", "ret", "kind", "level", "err")} for ev in verdicts[1][2]]})
    elif verdicts[0][0] != verdicts[1][0]:
        raise vlib.Machinery("replay is not reproducible")
    return "model_checking", {"evaluations": 2, "distinct_nontrivial": 1, "rule": "replay of one recorded schedule, twice", "samples": [sc], "exhaustive": False}, []


def _run(ctx, q, seed, pool):
    if getattr(ctx, "replay", None):
        return replay_one(ctx)
    # ------------------------------------------------------------------ 1. model checking (background)
    safe_cfg = mkcfg(ctx, "UQuic_MC", "c23_safe", MaxCut="1" if q else "2")
    cov_cfg = mkcfg(ctx, "UQuic_MC", "c23_cov", MaxCut="0" if q else "1")
    asis_cfg = mkcfg(ctx, "UQuic_MC_asis", "c23_asis", MaxCut="1")
    live_cfg = mkcfg(ctx, "UQuic_MC_live", "c23_live", HRRs="{FALSE}" if q else "{FALSE, TRUE}", MaxCut="0")
    live_asis_cfg = mkcfg(ctx, "UQuic_MC_live_asis", "c23_live_asis", Builds='{"noname"}', HRRs="{FALSE}")
    f_safe = pool.submit(ctx.tlc, "UQuic_MC", cfg=safe_cfg, workers=8, timeout=2400, heap="6g", extra=shm_extra(ctx))
    f_cov = pool.submit(ctx.tlc, "UQuic_MC", cfg=cov_cfg, workers=4, timeout=2400, heap="4g", coverage=True, extra=shm_extra(ctx))
    f_asis = pool.submit(ctx.tlc, "UQuic_MC", cfg=asis_cfg, workers=2, timeout=900, heap="3g", extra=shm_extra(ctx), count=False)
    f_live = pool.submit(ctx.tlc, "UQuic_MC", cfg=live_cfg, workers=4, timeout=2400, heap="6g", extra=shm_extra(ctx))
    def live_asis():
        # the runner's parser does not know TLC's "Temporal property X was violated": read it from the error text
        try:
            res = ctx.tlc("UQuic_MC", cfg=live_asis_cfg, workers=1, timeout=900, heap="3g", extra=shm_extra(ctx), count=False)
            return list(res.violated)
        except vlib.Machinery as e:
            m = re.search(r"Temporal property (\w+) was violated", str(e))
            if m:
                return ["TEMPORAL:" + m.group(1)]
            raise
    f_live_asis = pool.submit(live_asis)

    # ------------------------------------------------------------------ 2. scenarios chosen by TLC
    scn_cfg = mkcfg(ctx, "UQuic_Scn", "c23_scn", MaxAt="45" if q else "75", MaxCut="0")   # cuts come from the simulated family
    sim_cfg = mkcfg(ctx, "UQuic_Scn_sim", "c23_sim")
    f_scn = pool.submit(ctx.tlc, "UQuic_Scn", cfg=scn_cfg, workers=8, timeout=2400, heap="6g", extra=shm_extra(ctx), count=False)
    f_sim = pool.submit(ctx.tlc, "UQuic_Scn", cfg=sim_cfg, workers=1, timeout=1200, heap="3g", count=False,
                        simulate="num=%d" % (200 if q else 4000), depth=250, extra=["-seed", str(seed)] + shm_extra(ctx))
    f_stuck = pool.submit(ctx.tlc, "UQuic_Scn", cfg="UQuic_Scn_asis", workers=1, timeout=600, heap="3g", extra=shm_extra(ctx), count=False)

    stuck_res = f_stuck.result()
    stuck = scenarios_of(stuck_res, "STUCK")
    eager = scenarios_of(f_scn.result(), "SCN")
    sim = scenarios_of(f_sim.result(), "SCN")
    if not eager or not sim:
        raise vlib.Machinery("TLC emitted no scenarios (eager %d, simulated %d)" % (len(eager), len(sim)))
    eager_emitted = len(eager)
    if q and len(eager) > 600:
        # quick tier: all uninjected schedules + a VERIF_SEED-chosen sample of the injected ones
        keep = [o for o in eager if uninjected(o)]
        rest = [o for o in eager if not uninjected(o)]
        random.Random(seed).shuffle(rest)
        eager = keep + rest[:600 - len(keep)]
    # Delivery dimension (not a model variable: every variant must behave like whole delivery, HandleData keeps a copy):
    # each Deliver of a schedule is carried out as HandleData calls of at most `chunk` bytes, from fresh slices or from ONE
    # receive buffer per side that the caller overwrites right after every call. Every schedule gets a VERIF_SEED-chosen
    # variant; the uninjected eager schedules get the full {1, 7, 64, 256, whole} x {fresh, reused} matrix.
    rng = random.Random(seed * 7919 + 23)
    weighted = [0] * 16 + [256] * 8 + [64] * 8 + [7] * 6 + ([1] if not q else [])   # byte-by-byte is long: rare outside the matrix
    scs = []
    for fam, lst in (("stuck", stuck), ("eager", eager), ("sim", sim)):
        for o in lst:
            cfg = dict(o["cfg"], chunk=rng.choice(weighted), reuse=rng.random() < 0.5)
            scs.append({"id": len(scs) + 1, "family": fam, "cfg": cfg, "plan": o.get("plan"), "ops": [parse_op(c) for c in o["ops"]]})
    plain = [o for o in eager if uninjected(o) and o["cfg"]["build"] == "ok" and not o["cfg"]["srvRefuse"] and not o["cfg"]["cliRefuse"]]
    cutsim = [o for o in sim if uninjected(o) and any(parse_op(c)["k"] for c in o["ops"])][:(2 if q else 10)]
    if not plain:
        raise vlib.Machinery("vacuity: TLC emitted no uninjected eager schedule for the delivery matrix")
    if q:       # one schedule per server behaviour (with / without HelloRetryRequest)
        plain = [next(o for o in plain if o["cfg"]["hrr"] == h) for h in (False, True) if any(o["cfg"]["hrr"] == h for o in plain)]
    for o in plain + cutsim:
        for chunk in (1, 7, 64, 256, 0):
            for reuse in (False, True):
                scs.append({"id": len(scs) + 1, "family": "delivery", "cfg": dict(o["cfg"], chunk=chunk, reuse=reuse), "plan": o.get("plan"),
                            "ops": [parse_op(c) for c in o["ops"]]})
    by_id = {s["id"]: s for s in scs}

    # ------------------------------------------------------------------ 3. replay on the real code (-race), record
    runs, racerep = run_pump(ctx, scs, "c23-main", race=True)
    if racerep:
        m = re.search(r"WARNING: DATA RACE[\s\S]{0,1500}", racerep)
        top = re.search(r"\n\s+([\w./*()-]+)\(\)\n", racerep)
        ctx.finding("race:%s" % (top.group(1) if top else "unknown"), "data race reported while pumping UQUICConn", {"report": m.group(0) if m else racerep[-1500:]})
    missing = [s["id"] for s in scs if s["id"] not in runs]
    if missing:
        raise vlib.Machinery("harness logged nothing for %d scenarios" % len(missing))
    # the watchdog must be generous: >= 50x the typical duration of a blocking call that returned
    durs = [e["us"] for es in runs.values() for e in es if e["op"] in ("Start", "Deliver", "Close") and e["ret"] in ("ok", "err")]
    typical = statistics.median(durs) if durs else 0
    p99 = sorted(durs)[int(len(durs) * 0.99)] if durs else 0
    if typical * 50 > TIMEOUT_MS * 1000 or p99 * 3 > TIMEOUT_MS * 1000:
        raise vlib.Machinery("watchdog %d ms is not generous: median call %d us, p99 %d us" % (TIMEOUT_MS, typical, p99))

    # ------------------------------------------------------------------ 4. TLC judges the recorded runs
    rows = [trace_row(s, runs[s["id"]]) for s in scs]
    acc, _ = validate(ctx, rows, shards=4 if q else 12, tagname="m")
    rejected = [s for s in scs if s["id"] not in acc]
    ctx.traces += len(rows)
    repro_info = {}
    if rejected:
        # Every rejection is an observation of the real code leaving the specification; the re-runs (alone, fresh processes,
        # no race detector) only guard against a flaky harness. A rejection may depend on goroutine timing, so a trace counts
        # as reproduced as soon as ANY of up to RERUNS re-runs is rejected again in the same class (same call and same kind
        # of result at the first unexplained event: a hang must hang again); only "never again" is exit 2.
        _, at1 = validate(ctx, [trace_row(s, runs[s["id"]]) for s in rejected], shards=2, verbose=True, tagname="v")
        ctx.traces += len(rejected)

        def klass(sig):
            p = sig.split(":")
            return (p[0], p[2] if len(p) > 2 else "")
        first = {s["id"]: sig_of(s, runs[s["id"]], at1)[0] for s in rejected}
        pending = list(rejected)
        for rnd in range(RERUNS):
            if not pending:
                break
            runs2, _ = run_pump(ctx, pending, "c23-repro%d" % rnd, race=False)
            rows2 = [trace_row(s, runs2.get(s["id"], [])) for s in pending]
            acc2, at2 = validate(ctx, rows2, shards=2, verbose=True, tagname="r%d_" % rnd)
            acc_asis, _ = validate(ctx, rows2, cfg="UQuic_Trace_asis", shards=1, tagname="a%d_" % rnd)
            ctx.traces += 2 * len(rows2)
            still = []
            for s in pending:
                sig2, i2 = sig_of(s, runs2.get(s["id"], []), at2)
                if s["id"] in acc2 or klass(sig2) != klass(first[s["id"]]):
                    still.append(s)
                    continue
                e = runs2[s["id"]][i2 - 1] if 1 <= i2 <= len(runs2[s["id"]]) else {}
                as_coded = s["id"] in acc_asis
                if e.get("ret") == "hung":
                    what = ("%s(%s) never returned (watchdog %d ms, first run and re-run %d) with client input %r; error of BuildHandshakeState on the same input: %r. "
                            "The repaired mechanism (FixEarlyReturn = TRUE) has no such behaviour%s"
                            % (e["op"], e["side"], TIMEOUT_MS, rnd + 1, s["cfg"]["build"], runs2[s["id"]][i2 - 1].get("builderr", ""),
                               "; the as-coded mechanism (early return in UConn.handshakeContext before the QUIC channels are closed) explains the run exactly" if as_coded else ""))
                else:
                    what = "recorded run is not a behaviour of UQuic (first run and re-run %d; delivery: chunk=%s, %s): first unexplained event #%d %s" % (
                        rnd + 1, s["cfg"].get("chunk") or "whole", "one reused, overwritten receive buffer" if s["cfg"].get("reuse") else "fresh slices", i2,
                        json.dumps({k: e.get(k) for k in ("op", "side", "ret", "err", "kind", "level", "mt", "sid", "junk", "u", "rem", "complete")}))
                repro_info[s["id"]] = sig2
                ctx.finding(sig2, what, {"cfg": s["cfg"], "ops": s["ops"], "family": s["family"], "first_unexplained_event": i2,
                                         "accepted_by_as_coded_model": as_coded,
                                         "trace": [{k: v for k, v in ev.items() if k in ("i", "op", "side", "ret", "kind", "level", "mt", "err", "builderr")} for ev in runs2[s["id"]]][-60:]})
            pending = still
        if pending and ctx.findings:
            ctx.note("%d further rejected traces (first-run signatures %s) were not rejected again in %d re-runs; the run already has reproduced rejections"
                     % (len(pending), sorted({first[s["id"]] for s in pending})[:6], RERUNS))
        elif pending:
            raise vlib.Machinery("%d rejected traces were never rejected again in %d re-runs (ids %s, first-run signatures %s)"
                                 % (len(pending), RERUNS, [s["id"] for s in pending][:10], sorted({first[s["id"]] for s in pending})[:6]))

    # ------------------------------------------------------------------ 5. the as-coded counterexample on the real code
    # every STUCK scenario of the as-coded model was replayed above; say which mechanism the code follows
    stuck_ids = [s["id"] for s in scs if s["family"] == "stuck"]
    nobuild_ids = [s["id"] for s in scs if s["cfg"]["build"] in ("noname", "unset") and any(e["op"] == "Start" and e["side"] == "c" for e in runs[s["id"]])]
    nb_rows = [trace_row(by_id[i], runs[i]) for i in nobuild_ids]
    nb_fixed = {i for i in nobuild_ids if i in acc}
    nb_asis, _ = validate(ctx, nb_rows, cfg="UQuic_Trace_asis", shards=1, tagname="n")
    ctx.traces += len(nb_rows)
    both = nb_fixed & nb_asis
    if both:
        raise vlib.Machinery("the trace specification does not separate the repaired from the as-coded mechanism (ids %s)" % sorted(both)[:5])

    # ------------------------------------------------------------------ 6. binding canaries
    def good_complete(s):
        es = runs[s["id"]]
        return (s["id"] in acc and s["cfg"]["build"] == "ok" and not s["cfg"]["hrr"] and s["cfg"]["chunk"] == 0 and
                all(e["complete"] for e in es if e["op"] == "End") and sum(1 for e in es if e["op"] == "End") == 2 and
                not any(e["op"] == "Cancel" for e in es))
    base = next((s for s in scs if s["family"] in ("eager", "delivery") and good_complete(s)), None)
    if base is None and not ctx.findings:
        raise vlib.Machinery("vacuity: no accepted, completed, uninjected run to build the canaries from")
    if base is None:       # reproduced rejections are the result of this run; the canaries need an accepted run
        ctx.note("binding canaries skipped: no accepted completed run to derive them from (the run has reproduced rejections)")
        return finish_early(ctx, scs, acc, repro_info)
    bev = trace_row(base, runs[base["id"]])["evs"]

    def idx(pred):
        for i, e in enumerate(bev):
            if pred(e):
                return i
        raise vlib.Machinery("canary: event not found in the base trace")
    canaries = {}
    c = [dict(e) for e in bev]; i = idx(lambda e: e["side"] == "c" and e["kind"] == "SetWriteSecret" and e["level"] == "Handshake")
    j = idx(lambda e: e["side"] == "c" and e["kind"] == "SetReadSecret" and e["level"] == "Handshake")
    c[i], c[j] = c[j], c[i]; canaries["read-secret-before-write-secret"] = c
    c = [dict(e) for e in bev]; i = idx(lambda e: e["side"] == "c" and e["kind"] == "WriteData" and e["mt"] == [1]); c[i]["sid"] = [32]
    canaries["nonempty-session-id"] = c
    c = [dict(e) for e in bev]; i = idx(lambda e: e["side"] == "c" and e["kind"] == "WriteData" and e["mt"] == [1]); c[i]["junk"] = 6
    canaries["ccs-after-hello"] = c
    c = [dict(e) for e in bev]; i = idx(lambda e: e["side"] == "c" and e["kind"] == "TransportParameters"); del c[i]
    canaries["transport-parameters-dropped"] = c
    c = [dict(e) for e in bev]; i = idx(lambda e: e["side"] == "c" and e["kind"] == "TransportParameters"); c.insert(i, dict(c[i]))
    canaries["transport-parameters-twice"] = c
    c = [dict(e) for e in bev]; i = idx(lambda e: e["side"] == "c" and e["kind"] == "HandshakeDone")
    j = idx(lambda e: e["side"] == "c" and e["kind"] == "SetReadSecret" and e["level"] == "Application")
    c[i], c[j] = c[j], c[i]; canaries["1rtt-read-secret-before-done"] = c
    c = [dict(e) for e in bev]; i = idx(lambda e: e["op"] == "Start" and e["side"] == "c"); c = c[:i + 1]; c[i]["ret"] = "hung"
    canaries["start-hung"] = c
    c = [dict(e) for e in bev]; i = idx(lambda e: e["op"] == "End" and e["side"] == "c"); c[i]["complete"] = False
    canaries["not-complete"] = c
    names = sorted(canaries)
    crow = [{"id": 1, "cfg": base["cfg"], "evs": bev}] + [{"id": k + 2, "cfg": base["cfg"], "evs": canaries[n]} for k, n in enumerate(names)]
    cacc, _ = validate(ctx, crow, shards=1, tagname="c")
    if 1 not in cacc:
        raise vlib.Machinery("canary control trace was rejected")
    swallowed = [names[k - 2] for k in cacc if k != 1]
    if swallowed:
        raise vlib.Machinery("binding canary accepted by the trace specification: %s" % swallowed)

    # ------------------------------------------------------------------ 7. model-checking results + vacuity
    safe, cov, asis, live, live_asis = f_safe.result(), f_cov.result(), f_asis.result(), f_live.result(), f_live_asis.result()
    if safe.violated or cov.violated:
        raise vlib.Machinery("the property-carrying model (FixEarlyReturn = TRUE) violates %s" % (safe.violated or cov.violated))
    if live.violated:
        raise vlib.Machinery("the property-carrying model (FixEarlyReturn = TRUE) violates liveness: %s" % live.violated)
    if "NoStuckCaller" not in asis.violated or not any(v.startswith("TEMPORAL") for v in live_asis):
        raise vlib.Machinery("the as-coded model no longer produces the parked-caller counterexample (%s / %s)" % (asis.violated, live_asis))
    if not stuck:
        raise vlib.Machinery("the as-coded model emitted no STUCK scenario")
    if cov.coverage.get("CallNext", 0) == 0:      # CallNext is CallNextL with 2-byte messages: TLC reports "<CallNextL line .. (call site)>: d:g"
        m = re.search(r"(?m)^<CallNextL line [^>]*>: (\d+):(\d+)", cov.out)
        cov.coverage["CallNext"] = int(m.group(2)) if m else 0
    never = [a for a in MC_ACTIONS if cov.coverage.get(a, 0) == 0]
    if never:
        raise vlib.Machinery("vacuity: actions never taken in the exhaustive run: %s" % never)
    # vacuity of the validation: which branches did accepted real runs exercise
    def has(pred):
        return sum(1 for s in scs if s["id"] in acc and pred(s, runs[s["id"]]))
    seen = {
        "completed_both_sides": has(lambda s, es: sum(1 for e in es if e["op"] == "End" and e["complete"]) == 2),
        "completed_with_hrr": has(lambda s, es: s["cfg"]["hrr"] and sum(1 for e in es if e["op"] == "End" and e["complete"]) == 2),
        "cut_inside_a_flight": has(lambda s, es: any(e["op"] == "Deliver" and e["rem"] > 0 for e in es)),
        "server_refused": has(lambda s, es: any(e["op"] == "Deliver" and e["side"] == "s" and e["ret"] == "err" for e in es)),
        "client_refused": has(lambda s, es: s["cfg"]["cliRefuse"] and any(e["op"] == "Deliver" and e["side"] == "c" and e["ret"] == "err" for e in es)),
        "cancel_mid_handshake": has(lambda s, es: any(e["op"] == "Cancel" for e in es) and any(e["op"] == "Deliver" and e["side"] == "c" and e["ret"] == "err" for e in es)),
        "close_mid_handshake_returned_error": has(lambda s, es: any(e["op"] == "Close" and e["ret"] == "err" for e in es)),
        "start_refused_minversion": has(lambda s, es: s["cfg"]["build"] == "minver12" and any(e["op"] == "Start" and e["side"] == "c" and e["ret"] == "err" for e in es)),
        "handledata_after_failure": has(lambda s, es: any(e["op"] == "Deliver" and e["ret"] == "err" for e in es[(next((k for k, e in enumerate(es) if e["ret"] == "err"), len(es)) + 1):])),
    }
    done2 = lambda es: sum(1 for e in es if e["op"] == "End" and e["complete"]) == 2
    for chunk in (1, 7, 64, 256, 0):
        for reuse in (False, True):
            seen["completed_chunk_%s_%s" % (chunk or "whole", "reusedbuf" if reuse else "fresh")] = has(
                lambda s, es: s["cfg"]["chunk"] == chunk and s["cfg"]["reuse"] == reuse and done2(es))
    # a handshake message reached the client in pieces out of the one overwritten buffer, and the handshake completed
    seen["message_split_across_calls_from_reused_buffer"] = has(
        lambda s, es: s["cfg"]["reuse"] and done2(es) and any(e["op"] == "Deliver" and e["side"] == "c" and e["ret"] == "ok" and 0 < e["u"] < 20 for e in es))
    empty = [k for k, v in seen.items() if v == 0 and k != "handledata_after_failure"]
    if empty and not ctx.findings:
        raise vlib.Machinery("vacuity: no accepted real run exercised %s" % empty)
    # unbuildable inputs must have been exercised one way or the other
    nb_seen = {"repaired_behaviour": len(nb_fixed), "as_coded_behaviour": len(nb_asis), "neither": len(set(nobuild_ids) - nb_fixed - nb_asis)}
    if not nobuild_ids:
        raise vlib.Machinery("vacuity: no scenario with an input that cannot be built")

    nevents = sum(len(v) for v in runs.values())
    sample = []
    for s in ([by_id[stuck_ids[0]]] if stuck_ids else []) + [base]:
        sample.append({"cfg": s["cfg"], "family": s["family"], "ops": ["%s.%s.%d" % (o["op"], o["side"], o["k"]) for o in s["ops"]][:14],
                       "observed": ["%s.%s:%s%s" % (e["op"], e["side"], e["ret"], (":" + e["kind"] + "@" + e["level"]) if e["op"] == "Next" else "") for e in runs[s["id"]]][:14]})
    cov_d = {
        "evaluations": len(scs), "distinct_nontrivial": len({json.dumps([s["cfg"], s["ops"]], sort_keys=True) for s in scs}),
        "rule": "evaluations = pump schedules chosen by TLC and replayed on the real UQUICConn+QUICServer under -race, each judged by TLC "
                "(UQuic_Trace, FixEarlyReturn = TRUE); distinct = distinct (configuration, schedule) pairs. Families: stuck = parked-caller "
                "states of the as-coded model, eager = exhaustive cfg x {cancel, close c, close s at every pump step} x cut, sim = random free interleavings, "
                "delivery = uninjected schedules x HandleData chunk size {1, 7, 64, 256, whole} x {fresh slice, one reused overwritten buffer} "
                "(every other schedule gets one VERIF_SEED-chosen delivery variant)",
        "families": {"stuck": len(stuck), "eager": len(eager), "eager_emitted_by_tlc": eager_emitted, "sim": len(sim),
                     "delivery": sum(1 for s in scs if s["family"] == "delivery")},
        "events_logged": nevents, "accepted": len(acc), "rejected_and_reproduced": len(repro_info),
        "rejected_signatures": sorted(set(repro_info.values())),
        "unbuildable_inputs": nb_seen, "branches_seen_in_accepted_runs": seen,
        "canaries_rejected": names, "mc_actions_covered": {a: cov.coverage.get(a, 0) for a in MC_ACTIONS},
        "model_as_coded": {"safety": asis.violated, "liveness": live_asis, "stuck_scenarios": len(stuck)},
        "model_repaired": {"safety_states": safe.distinct, "liveness_states": live.distinct, "max_cut": 1 if q else 2},
        "watchdog_ms": TIMEOUT_MS, "typical_call_us": typical, "p99_call_us": p99, "race_detector": "on", "race_reports": 1 if racerep else 0,
        "samples": sample, "exhaustive": False,
    }
    return "model_checking", cov_d, [
        "UQuic's instruction tables state the order of events of the TLS 1.3 client/server handshake functions",
        "the pump is single threaded (methods of UQUICConn are documented as not safe for concurrent use)",
        "HandleData at a wrong encryption level, session tickets/0-RTT and TransportParametersRequired are not modelled",
        "equality of the secrets with whole-flight delivery is judged through the event sequence and the completed handshake (Finished verifies the transcript), the secret bytes themselves are per-connection random",
        "a call that does not return within %d ms (>= 50x the measured typical call) twice is a hang" % TIMEOUT_MS,
    ]
