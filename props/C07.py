"""C07 - spec importers never panic; inputs that are still valid ClientHellos yield usable specs.
TLA+: spec/Flight.tla (ClientHello record tree, mutation operators, tagged JSON trees, HelloMap; validity =
TLSWire!ValidClientHello evaluated by TLC on the mutated bytes), Flight_MC, Flight_Trace."""
import random
import flight, vlib


def run(ctx):
    ids = flight.parrots(ctx)
    # Chrome-83 carries a padding extension (sized for the captured ServerName): the re-apply-under-other-names half needs one
    rep = [("Chrome-133", []), ("Firefox-120", []), ("Chrome-100_PSK", ["psk"]), ("Chrome-83", []), ("Chrome-58", ["v12"]), ("iOS-14", []), ("Edge-106", [])]
    docs = flight.repo_json_docs()
    if ctx.quick:
        rnd = random.Random(ctx.seed)
        sel = rep[:5] + [(rnd.choice([i for i in ids if i not in {p for p, f in rep[:5]}]), [])]
        maps = ["Chrome-133[]", "Firefox-120[]"]
        docs = docs[:1] + [rnd.choice(docs[1:])] if len(docs) > 2 else docs
    else:
        sel = rep + [(i, []) for i in ids if (i, []) not in rep]
        maps = None
    cases = [{"name": "%s[%s]" % (p, "+".join(f)), "parrot": p, "flags": f} for p, f in sel]
    cov = flight.run_import_family(ctx, "C07", cases, maps if maps is not None else [c["name"] for c in cases], docs)
    return "exploration", cov, [
        "only STRUCTURED inputs are explored (one grammar-node / tree-position mutation of a real capture or of a repository JSON spec per input); arbitrary byte strings, arbitrary JSON and coverage-guided fuzzing are not covered by this technique family",
        "'syntactically valid ClientHello' is TLSWire!ValidClientHello on the mutated record (record framing exact, RFC grammar of every known extension, unknown extensions opaque)",
        "'applied and marshaled' = UClient(HelloCustom).ApplyPreset(spec) then BuildHandshakeState(), with the captured ServerName and again (fresh import each time) with ServerNames 3 bytes shorter .. 3 bytes longer, none (InsecureSkipVerify) and a 194-byte one; errors are allowed, panics are not",
        "JSON null is reached through the wrong-type operator; duplicate object keys through the dup operator; numbers outside int32 are not generated (TLC integers)",
        "TLC and the Go toolchain are trusted",
    ]
