"""C06 - fingerprinting a ClientHello and re-applying it reproduces its shape; fingerprinting is idempotent.
TLA+: spec/Fingerprint.tla (Norm, RoundTrip), spec/Fingerprint_MC.tla (scenario grid source x flags x sni class, TLC-generated
custom specs, model-level sanity of Norm), spec/Fingerprint_Trace.tla (judges the three wire hellos A, B, C of every scenario).
Harness: wireb roundtrip (A -> FingerprintClientHello -> ApplyPreset -> BuildHandshakeState -> B -> again -> C)."""
import json, random
import vlib
import wireb_common as W

NEED = ["grease-ext", "grease-suite", "key-share", "ech", "ech-enc-not-32", "grease-share-not-1", "grease-ext-body", "grease-ext2-body", "sid-not-32", "psk", "psk-dropped", "ticket", "padded-A", "unpadded-A", "padding-added",
        "sni-length-differs", "sni-length-same", "same-total", "blunt", "alwayspad", "realpsk", "C", "refused", "unrecognised-ext"]


def mkey(src):
    return (src["id"], src["m"]["op"], src["m"]["i"], src["m"]["k"])


def select(ctx, scns, rnd):
    """quick: a seeded sample of the grid that keeps every parrot x every flag combination; thorough: the whole grid."""
    if not ctx.quick:
        return scns
    by = {}
    for s in scns:
        by.setdefault(s["src"]["kind"], []).append(s)
    out = []
    classes = ["same", "shorter", "longer"]
    for s in by.get("parrot", []):
        f = s["flags"]
        k = (sum(s["src"]["id"].encode()) + 4 * f["blunt"] + 2 * f["pad"] + f["realpsk"] + ctx.seed) % 3
        if s["sni"] == classes[k]:
            out.append(s)
    out += rnd.sample(by.get("randomized", []), min(48, len(by.get("randomized", []))))
    cust = by.get("custom", [])
    # every kind of added extension under every flag combination at least once, the rest at random
    adds = {}
    for s in cust:
        if s["src"]["m"]["op"] == "add":
            f = s["flags"]
            adds.setdefault((s["src"]["m"]["k"], f["blunt"], f["pad"], f["realpsk"]), []).append(s)
    for k in sorted(adds):
        out.append(rnd.choice(adds[k]))
    out += rnd.sample(cust, min(200, len(cust)))
    out += rnd.sample(by.get("capture", []), min(48, len(by.get("capture", []))))
    # GREASE-ECH captures: every (enc size, payload size) pair once, parrot / flags / sni class at random
    ech = {}
    for s in by.get("echcapture", []):
        ech.setdefault((s["src"]["k"], s["src"]["m"]["i"]), []).append(s)
    for k in sorted(ech):
        out.append(rnd.choice(ech[k]))
    # captures / custom specs with a non-default opaque length: every (what, length) twice
    opq = {}
    for s in by.get("craft", []):
        opq.setdefault(("craft", s["src"]["m"]["op"], s["src"]["k"]), []).append(s)
    for s in cust:
        if s["src"]["m"]["op"] in ("gks", "gbody", "gbody2"):
            opq.setdefault(("custom", s["src"]["m"]["op"], s["src"]["m"]["k"]), []).append(s)
    for k in sorted(opq):
        out += rnd.sample(opq[k], min(2, len(opq[k])))
    return out


def build_cases(ctx, scns, cspecs, rnd):
    # base hellos for the crafted captures: one real wire hello per parrot
    need_cap = sorted({s["src"]["id"] for s in scns if s["src"]["kind"] in ("capture", "echcapture", "craft")})
    capL = {i: rnd.randrange(8, 60) for i in need_cap}
    base = {}
    if need_cap:
        pre = [{"src": {"kind": "parrot", "id": i}, "sni": W.sni_name(capL[i], ctx.seed), "sni2": "", "flags": {"blunt": False, "pad": False, "realpsk": False},
                "omit": True, "steps": 0} for i in need_cap]
        evs = W.run_cases(ctx, pre, name="c06_base")
        for c in pre:
            if not evs[c["sc"]]["a"]:
                raise vlib.Machinery("no base hello for capture crafting from %s: %r" % (c["src"]["id"], evs[c["sc"]]))
            base[c["src"]["id"]] = evs[c["sc"]]["a"]
    cases = []
    for n, s in enumerate(scns):
        src = s["src"]
        L = rnd.randrange(6, 64)
        d = rnd.randrange(1, 10)
        L2 = {"same": L, "shorter": max(1, L - d), "longer": L + d}[s["sni"]]
        c = {"scn": s, "sni": W.sni_name(L, ctx.seed), "sni2": W.sni_name(L2, ctx.seed + 17), "flags": s["flags"], "omit": True, "steps": 2}
        if src["kind"] == "parrot":
            c["src"] = {"kind": "parrot", "id": src["id"]}
            if n % 5 == 0 and any(e["kind"] == "SessionTicketExtension" for e in ctx.specs[src["id"]]["exts"]):
                c["src"]["ticket"] = 40 + n % 90
        elif src["kind"] == "randomized":
            seed = list(random.Random(ctx.seed * 100003 + src["k"]).randbytes(32))
            c["src"] = {"kind": "randomized", "id": src["id"], "seed": seed}
        elif src["kind"] == "custom":
            c["src"] = {"kind": "custom", "id": src["id"], "spec": cspecs[mkey(src)]}
        else:
            L = capL[src["id"]]
            L2 = {"same": L, "shorter": max(1, L - d), "longer": L + d}[s["sni"]]
            c["sni"], c["sni2"] = "", W.sni_name(L2, ctx.seed + 17)
            if src["kind"] == "craft":
                raw = W.craft(base[src["id"]], src["m"]["op"], src["k"])
            elif src["kind"] == "capture":
                raw = W.with_padding(base[src["id"]], src["k"], "end" if src["where"] == "end" else 3)
            else:
                raw = W.with_ech_sizes(base[src["id"]], src["k"], src["m"]["i"])
            c["src"] = {"kind": "capture", "id": src["id"], "raw": raw, "recvers": 0x0301}
        cases.append(c)
    return cases


def rows_of(cases, evs):
    rows, notbuilt, panics = [], [], []
    for c in cases:
        e = evs[c["sc"]]
        if e["panic"]:
            panics.append((c, e))
            continue
        if not e["a"]:
            notbuilt.append((c, e))
            continue
        rows.append({"sc": c["sc"], "a": e["a"], "b": e["b"], "c": e["c"], "flags": c["flags"],
                     "refused1": e["ferr1"] != "", "failed1": e["aerr1"] != "", "refused2": e["ferr2"] != "", "failed2": e["aerr2"] != ""})
    return rows, notbuilt, panics


def judge(ctx, cases, shards, name, count=True, tag=""):
    evs = W.run_cases(ctx, cases, name=name)
    rows, notbuilt, panics = rows_of(cases, evs)
    results, _ = W.validate(ctx, "Fingerprint_Trace", "fp_trace.ndjson", rows, shards, count=count, tag=tag)
    rej, feats, skipped = [], set(), set()
    for res in results:
        for r in W.tagged(res, "REJ"):
            rej.append({"sc": r[0], "dev": sorted(r[1])})
        for f in W.tagged(res, "FEATS"):
            feats |= set(f)
        for s in W.tagged(res, "SKIPPED"):
            skipped |= set(s)
    return evs, rows, rej, feats, skipped, notbuilt, panics


def brief(c):
    s = c["scn"]["src"]
    b = {"kind": s["kind"], "id": s["id"], "flags": c["flags"], "sni_class": c["scn"]["sni"]}
    if s["kind"] == "custom":
        b["mutation"] = s["m"]
    if s["kind"] == "capture":
        b["padding"] = s["k"]; b["where"] = s["where"]
    if s["kind"] == "craft":
        b["crafted"] = s["m"]["op"]; b["length"] = s["k"]
    if s["kind"] == "echcapture":
        b["ech_enc_len"] = s["k"]; b["ech_payload_len"] = s["m"]["i"]
    if s["kind"] == "randomized":
        b["seed_slot"] = s["k"]
    return b


def sig_of(c, dev):
    return "fp:%s:%s" % (c["scn"]["src"]["kind"], "+".join(dev))


def canaries(ctx, rows):
    good = next((r for r in rows if r["a"] and r["b"] and r["c"] and 21 in W.ext_types(r["b"]) and 16 in W.ext_types(r["c"])
                 and len(dict(W.split_hello(r["b"])[1])[21]) >= 2), None)
    if good is None:
        raise vlib.Machinery("C06 canary: no complete A/B/C row with a padded B available to corrupt")

    def suites_shifted(msg):
        m = list(msg)
        p = 4 + 2 + 32
        p += 1 + m[p]
        n = m[p] * 256 + m[p + 1]
        cs = m[p + 2:p + 2 + n]
        # swap the last two suites (never GREASE)
        cs[-4:] = cs[-2:] + cs[-4:-2]
        m[p + 2:p + 2 + n] = cs
        return m

    def exts_swapped(msg):
        prefix, exts = W.split_hello(msg)
        i = next(i for i in range(len(exts) - 1) if exts[i][0] != exts[i + 1][0] and 21 not in (exts[i][0], exts[i + 1][0])
                 and (exts[i][0] & 0x0f0f) != 0x0a0a and (exts[i + 1][0] & 0x0f0f) != 0x0a0a and 41 not in (exts[i][0], exts[i + 1][0]))
        exts[i], exts[i + 1] = exts[i + 1], exts[i]
        return W.join_hello(prefix, exts)

    def body_changed(msg, t, f):
        prefix, exts = W.split_hello(msg)
        exts = [(tt, f(b) if tt == t else b) for tt, b in exts]
        return W.join_hello(prefix, exts)

    def version_changed(msg):
        m = list(msg); m[5] = 0x01; return m

    tests = [
        ("good", dict(good), None),
        ("suite-shifted-in-B", dict(good, b=suites_shifted(good["b"])), "AB:cipher-suites"),
        ("extensions-swapped-in-B", dict(good, b=exts_swapped(good["b"])), "AB:extension-order"),
        ("alpn-byte-changed-in-C", dict(good, c=body_changed(good["c"], 16, lambda b: b[:-1] + bytes([b[-1] ^ 1]))), "BC:extension-body:16"),
        ("padding-byte-nonzero-in-B", dict(good, b=body_changed(good["b"], 21, lambda b: b[:-1] + b"\x01")), "AB:padding-nonzero"),
        ("legacy-version-changed-in-C", dict(good, c=version_changed(good["c"])), "BC:legacy-version"),
        ("B-dropped", dict(good, b=[], c=[]), "AB:no-hello"),
    ]
    rows2 = []
    for i, (name, row, want) in enumerate(tests):
        row["sc"] = i
        rows2.append(row)
    results, _ = W.validate(ctx, "Fingerprint_Trace", "fp_trace.ndjson", rows2, 1, count=False, tag="canary")
    got = {}
    for res in results:
        for r in W.tagged(res, "REJ"):
            got[r[0]] = set(r[1])
    for i, (name, row, want) in enumerate(tests):
        g = got.get(i, set())
        if want is None and g:
            raise vlib.Machinery("C06 canary %s: a good round trip was rejected: %s" % (name, sorted(g)))
        if want is not None and not any(d.startswith(want) for d in g):
            raise vlib.Machinery("C06 canary %s: expected deviation %s, TLC reported %s" % (name, want, sorted(g)))
    return len(tests)


def run(ctx):
    rnd = random.Random(ctx.seed)
    d = W.dump_specs(ctx)
    ctx.specs = d["specs"]
    # ---- 1. model: Norm sanity on abstract hellos + the scenario grid + TLC-generated custom specs
    mc = ctx.tlc("Fingerprint_MC", cfg="Fingerprint_MC", workers=4, timeout=1700)
    if mc.violated:
        raise vlib.Machinery("Fingerprint_MC: %s violated at model level (Norm/RoundTrip are not what the module claims)\n%s"
                             % (mc.violated, mc.out[-2500:]))
    scns = W.tagged(mc, "SCN")
    cspecs = {(c["id"], c["m"]["op"], c["m"]["i"], c["m"]["k"]): c["spec"] for c in W.tagged(mc, "CSPEC")}
    if not W.tagged(mc, "ABS"):
        raise vlib.Machinery("Fingerprint_MC never built a full-size abstract hello (Norm sanity vacuous)")
    kinds = {s["src"]["kind"] for s in scns}
    if kinds != {"parrot", "randomized", "custom", "capture", "echcapture", "craft"} or not cspecs:
        raise vlib.Machinery("Fingerprint_MC grid incomplete: %s, %d custom specs" % (kinds, len(cspecs)))
    chosen = select(ctx, scns, rnd)
    cases = build_cases(ctx, chosen, cspecs, rnd)
    shards = 8 if ctx.quick else max(12, len(cases) // 1500)
    evs, rows, rej, feats, skipped, notbuilt, panics = judge(ctx, cases, shards, "c06_main")
    ctx.traces += len(rows) - len(skipped)

    # ---- 2. findings first (reproduced alone), then vacuity / canaries
    for c, e in panics[:20]:
        ctx.finding("fp:%s:panic" % c["scn"]["src"]["kind"], "panic during the round trip of %s: %s" % (brief(c), e["panic"]), {"scenario": brief(c)})
    if rej:
        pick = rej[:60]
        again_cases = [dict(cases[r["sc"]]) for r in pick]
        olds = [(cases[r["sc"]], r) for r in pick]
        _, _, rej2, _, _, _, _ = judge(ctx, again_cases, 2, "c06_repro", count=False, tag="rp")
        again = {r["sc"]: r for r in rej2}
        for i, (c, r) in enumerate(olds):
            if i not in again:
                raise vlib.Machinery("C06: rejection of %s (%s) did not reproduce" % (brief(c), r["dev"]))
        for r in rej:
            c = cases[r["sc"]]
            e = evs[c["sc"]]
            ctx.finding(sig_of(c, r["dev"]), "round trip deviates (%s) for %s" % (", ".join(r["dev"]), brief(c)),
                        {"scenario": brief(c), "deviations": r["dev"], "sni": c["sni"], "sni2": c["sni2"],
                         "errors": {k: e[k] for k in ("ferr1", "aerr1", "ferr2", "aerr2") if e[k]},
                         "a_hex": bytes(e["a"]).hex(), "b_hex": bytes(e["b"]).hex(), "c_hex": bytes(e["c"]).hex()})
    nb = {}
    for c, e in notbuilt:
        nb.setdefault(c["scn"]["src"]["kind"], []).append(e["aerr0"])
    for k in nb:
        if k != "custom":
            raise vlib.Machinery("source hello A could not be built for %s scenarios: %s" % (k, nb[k][:3]))
    if W.unknown_findings(ctx):
        return "model_checking", {"evaluations": len(rows), "distinct_nontrivial": len(rows) - len(skipped), "rule": "see passing runs",
                                  "samples": [], "exhaustive": False, "rejected": len(rej)}, []
    missing = [f for f in NEED if f not in feats]
    if missing:
        raise vlib.Machinery("C06 vacuity: features never exercised by a judged round trip: %s" % missing)
    if len(skipped) > len(rows) // 3:
        raise vlib.Machinery("C06 vacuity: %d of %d source hellos are not valid ClientHellos (outside the statement)" % (len(skipped), len(rows)))
    ncan = canaries(ctx, rows)

    perkind = {}
    for c in cases:
        perkind[c["scn"]["src"]["kind"]] = perkind.get(c["scn"]["src"]["kind"], 0) + 1
    sample = []
    for c in cases[:2]:
        e = evs[c["sc"]]
        sample.append({"scenario": brief(c), "len_a": len(e["a"]), "len_b": len(e["b"]), "len_c": len(e["c"]), "ext_types_b": W.ext_types(e["b"]) if e["b"] else []})
    cov = {"evaluations": len(rows), "distinct_nontrivial": len(rows) - len(skipped),
           "rule": "TLC grid: source {38 parrots, 3 randomized ids x 8 seed slots (seeds from VERIF_SEED), %d TLC-generated custom specs "
                   "(drop/swap/add/field mutants of the dumped parrot specs), captures with crafted padding {1,2,5,33,200} x {end, middle}, captures with GREASE-ECH enc sizes {1,31,33,65,97,133} x payload sizes "
                   "{144,16,100,250}, captures / custom specs with GREASE key_share key_exchange {2,7,32}, first GREASE extension body {1,5}, second {2,5}, "
                   "session id {0,16}, ticket {48,200}} x 8 flag "
                   "combinations x sni class {same, shorter, longer} = %d points; %s; evaluations = scenarios whose A, B, C wire hellos were "
                   "judged by TLC (Norm(A)=Norm(B), lengths, padding policy, Norm(C)=Norm(B)); distinct = those with a valid A"
                   % (len(cspecs), len(scns), "quick: seeded sample keeping every parrot x flag combination" if ctx.quick else "all points"),
           "samples": sample, "exhaustive": not ctx.quick, "scenarios_per_source": perkind, "features_seen": sorted(feats),
           "source_not_buildable": {k: len(v) for k, v in nb.items()}, "outside_statement_invalid_A": len(skipped),
           "outside_statement_samples": [brief(cases[i]) for i in sorted(skipped)[:4]], "canaries": ncan,
           "grid_points": len(scns), "custom_specs": len(cspecs)}
    return "model_checking", cov, ["TLSWire.ParseHello/ValidClientHello state the ClientHello grammar",
                                    "Fingerprint.Dedicated lists the code points utls documents as recognised (ExtensionFromID)"]
