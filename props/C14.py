"""C14 - server certificates are verified exactly as the Config requests.
TLA+: spec/CertVerify.tla (ShouldAccept; exhaustive grid over certificate kind x ServerName x InsecureServerNameToVerify x
InsecureSkipTimeVerify x InsecureSkipVerify x clock x {fresh, resumed after a permissive first connection, resumed after a
strict first connection}), spec/CertVerifyTrace.tla.  The ECH branches (accepted / rejected -> public name) are checked by C15's
machinery and reported there under property C14."""
import json, vlib

def run(ctx):
    mc = ctx.tlc("CertVerify", timeout=300)
    if mc.violated:
        raise vlib.Machinery("CertVerify model violates its own sanity invariants: %s" % mc.violated)
    grid = mc.tagged("SCN")
    ids = ["Chrome-133", "Chrome-100_PSK", "Chrome-58", "Golang"] if ctx.quick else \
          ["Chrome-133", "Chrome-100_PSK", "Chrome-112_PSK", "Chrome-58", "Chrome-70", "Firefox-120", "Firefox-55", "iOS-14", "Safari-16.0", "Edge-106", "Golang"]
    scns = []
    for g in grid:
        for i in ids:
            for ver in (771, 772):
                if i in ("Chrome-58", "Firefox-55") and ver == 772:
                    continue
                if ctx.quick and len(g["conns"]) == 1 and g["conns"][0]["remove_sni"] and i == "Golang":
                    continue
                if ctx.quick and len(g["conns"]) == 2 and (hash((i, ver, json.dumps(g, sort_keys=True), ctx.seed)) % 6):
                    continue
                scns.append({"sc": len(scns), "id": i, "ver": ver, "cert": g["cert"], "conns": g["conns"]})
    evs = ctx.drv("certverify", {"scenarios": scns}, timeout=1500)
    if any(e["ev"] == "Error" for e in evs):
        raise vlib.Machinery("harness error: %r" % [e for e in evs if e["ev"] == "Error"][:2])
    # sharded validation
    groups, cur = [], []
    for e in evs:
        if e["ev"] == "Scn" and cur:
            groups.append(cur); cur = []
        cur.append(e)
    groups.append(cur)
    shards = 8
    per = (len(groups) + shards - 1) // shards
    src = open(ctx.scratch + "/CertVerifyTrace.tla").read()
    import concurrent.futures as cf
    def one(k):
        part = sum(groups[k * per:(k + 1) * per], [])
        if not part:
            return []
        name = "certverify_trace_%d" % k
        open(ctx.scratch + "/CertVerifyTrace_%d.tla" % k, "w").write(src.replace("certverify_trace.ndjson", name + ".ndjson").replace("MODULE CertVerifyTrace", "MODULE CertVerifyTrace_%d" % k))
        ctx.write_ndjson(name + ".ndjson", part)
        r = ctx.tlc("CertVerifyTrace_%d" % k, cfg="CertVerifyTrace", timeout=900)
        if r.tagged("DONE") != [len(part)]:
            raise vlib.Machinery("shard %d not fully consumed" % k)
        return r.tagged("REJ")
    rej = []
    with cf.ThreadPoolExecutor(max_workers=shards) as ex:
        for r in ex.map(one, range(shards)):
            rej.extend(r)
    ctx.traces += len(scns)
    conns = {(e["sc"], e["k"]): e for e in evs if e["ev"] == "Conn"}
    for sc, k, what, resumed, why in rej:
        s = scns[sc]
        c = s["conns"][k - 1]
        if what == "panic":
            ctx.finding("certverify:panic:%s" % s["id"], "panic: %s" % conns[(sc, k)]["cpanic"], {"scenario": s})
            continue
        first = "fresh" if len(s["conns"]) == 1 else ("second-after-permissive" if s["conns"][0]["skip_verify"] and k == 2 else "second-after-strict" if k == 2 else "first")
        ctx.finding("certverify:%s:why=%s:%s:resumed=%s%s" % (what, why, first, resumed, ":after-setsni" if c.get("setsni") else ""),
                    "%s (TLS %#x, certificate %s, %s connection): %s; client error: %s" % (s["id"], s["ver"], s["cert"], first, what, conns[(sc, k)]["cerr"]),
                    {"scenario": s, "connection": k, "observed": {x: conns[(sc, k)][x] for x in ("cok", "cerr", "errtype", "resumed")}})
    # canary: claim a wrong-name certificate was accepted without any relaxation
    bad = next(g for g in groups if g[0]["cert"] == "wrongname" and len(g[0]["conns"]) == 1 and not g[0]["conns"][0]["skip_verify"]
               and g[0]["conns"][0]["itv"] == "" and g[0]["conns"][0]["server_name"] == "example.com" and not g[0]["conns"][0].get("setsni"))
    forged = json.loads(json.dumps(bad)); forged[1]["cok"] = True
    ctx.write_ndjson("certverify_trace.ndjson", forged)
    if not ctx.tlc("CertVerifyTrace", timeout=300, count=False).tagged("REJ"):
        raise vlib.Machinery("binding canary accepted")
    resumed = sum(1 for e in conns.values() if e["resumed"])
    acc = sum(1 for e in conns.values() if e["cok"]); ref = sum(1 for e in conns.values() if e["errtype"] == "CertificateVerificationError")
    if resumed == 0 or acc == 0 or ref == 0:
        raise vlib.Machinery("vacuous: resumed=%d accepted=%d verification_errors=%d" % (resumed, acc, ref))
    cov = {"evaluations": len(scns), "distinct_nontrivial": len(scns),
           "rule": "the %d terminal states of the CertVerify model (exhaustive grid) x %d ClientHelloIDs x TLS 1.2/1.3 (quick: two-connection scenarios sampled 1/3 by VERIF_SEED); distinct = scenarios" % (len(grid), len(ids)),
           "samples": scns[:2] + scns[-1:], "connections": len(conns), "resumed_connections": resumed, "accepted": acc, "certificate_verification_errors": ref, "exhaustive": not ctx.quick}
    return "model_checking", cov, ["clock is Config.Time; certificates from a throw-away CA", "ECH accepted/rejected branches: see C15 (reported under C14 there)"]
