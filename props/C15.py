"""C15 - ECH hides the real server name and is honoured end to end (+ the ECH branches of C14: which name the server
certificate is verified against when ECH was accepted / rejected).

TLA+: spec/ECH.tla (bytes of ECHConfig / outer+inner ECH extension / EncodedClientHelloInner and its reference reconstruction,
the client/server state machine, the properties), spec/ECH_MC.tla (bounded exhaustive grid on model-built bytes; emits the
scenarios), spec/ECH_Trace.tla (the same step operators and properties driven by what was recorded from the real library).
Harness: harness/cmd/ech (commands echids, ech) - performs and logs, judges nothing.

Signatures: "c14:..." = the verdict of certificate verification is not the one the verification-name rule demands
(ServerName iff ECH accepted, else the ECH public name); everything else "c15:...".
"""
import concurrent.futures as cf
import json, re
import vlib

MUTANTS = {  # model-level sensitivity: each wrong client must violate one of these invariants of ECH_MC
    "outer-sni-secret": {"NoLeak", "OuterOK"},
    "inner-names-public": {"InnerOK"},
    "stale-shares": {"InnerOK"},                        # the D8 pattern
    "kdf-hash": {"OutcomeRule", "AcceptReported"},      # acceptance confirmation derived with the hash of the HPKE KDF instead of the negotiated suite's
    "stale-outer-list": {"InnerOK"},                    # ech_outer_extensions of the second inner hello computed before the cookie was inserted
    "ignore-signal": {"OutcomeRule", "AcceptReported", "RejectionCarriesRetry"},
    "verify-servername-always": {"VerifyNameRule", "OutcomeRule"},   # the D10 pattern
    "drop-retry": {"RejectionCarriesRetry"},
}
INVS = "ScenarioSane Progress NoLeak OuterOK InnerOK DecryptOK AcceptReported RejectionCarriesRetry VerifyNameRule OutcomeRule"


def mc_cfg(ctx, name, cfgids, aeads, maxlens, names, shapes, usages, cookies, suites, sample, mutant):
    st = lambda xs: "{" + ", ".join(str(x) for x in xs) + "}"
    open(ctx.scratch + "/%s.cfg" % name, "w").write(
        "CONSTANTS\n  CfgIds = %s\n  AeadIds = %s\n  MaxLens = %s\n  NameSets = %s\n  ShapeIdx = %s\n  UsageIdx = %s\n  CookieLens = %s\n  SuiteIds = %s\n  Sample = %d\n  Mutant = \"%s\"\n"
        "INIT Init\nNEXT Next\nINVARIANTS %s\nCONSTRAINT Emit\nCHECK_DEADLOCK FALSE\n"
        % (st(cfgids), st(aeads), st(maxlens), st(names), st(shapes), st(usages), st(cookies), st(suites), sample, mutant, INVS))
    return name


def split(events):
    groups, cur = [], []
    for e in events:
        if e["ev"] == "Scn" and cur:
            groups.append(cur)
            cur = []
        cur.append(e)
    if cur:
        groups.append(cur)
    return groups


def validate(ctx, groups, shards, tag, count=True):
    """Runs ECH_Trace over the scenario groups in `shards` parallel TLC processes; returns the rejections [sc, kind, detail]."""
    per = max(1, (len(groups) + shards - 1) // shards)
    parts = [sum(groups[i:i + per], []) for i in range(0, len(groups), per)]
    src = open(ctx.scratch + "/ECH_Trace.tla").read()

    def one(k):
        mod = "ECH_Trace_%s_%d" % (tag, k)
        open(ctx.scratch + "/%s.tla" % mod, "w").write(src.replace("ech_trace.ndjson", mod + ".ndjson").replace("MODULE ECH_Trace", "MODULE " + mod))
        ctx.write_ndjson(mod + ".ndjson", parts[k])
        res = ctx.tlc(mod, cfg="ECH_Trace", timeout=1700, count=count, heap="3g")
        done = res.tagged("DONE")
        if not done or done[0] != len(parts[k]):
            raise vlib.Machinery("ECH_Trace shard %s/%d consumed %r of %d events\n%s" % (tag, k, done, len(parts[k]), res.out[-2000:]))
        return res.tagged("REJ")

    rej = []
    with cf.ThreadPoolExecutor(max_workers=min(len(parts), 14)) as ex:
        for r in ex.map(one, range(len(parts))):
            rej.extend(r)
    return rej


def clean(d):
    return re.sub(r"[\"<>\\ ]", "", str(d)).replace(",", "/")


def sig_of(s, kind, detail):
    idc = "golang" if s["id"] == "Golang" else "utls"
    d = clean(detail)
    if kind == "verify-name":
        acc = "accepted" if s["server"] in ("accept", "hrr") else "rejected"
        return "c14:ech-%s:expected=%s:cert=%s:%s" % (acc, d.replace("/", ":observed="), s["cert"], idc)
    return "c15:%s:%s:%s:%s" % (kind, d, s["server"], idc)


def brief(s):
    return {k: (bytes(v).decode() if k in ("sname", "pubname") else v) for k, v in s.items() if k != "ck"}


def run(ctx):
    # ---- code -> model constants
    ids = ctx.drv("echids", {}, prog="ech")[0]["ids"]
    ctx.write_json("ech_ids.json", {k: {f: v[f] for f in ("kinds", "groups", "shares", "suites")} for k, v in ids.items()})

    # ---- model checking: the grid + the properties on model-built bytes; scenarios out
    full = ([0, 7, 255], [1, 2, 3], [0, 32, 255], [1, 2], [1, 2, 3, 4], [1, 2, 3, 4, 5], [0, 1, 32, 255], [4865, 4866, 4867])
    sample = ctx.seed % 6 + (0 if ctx.quick else 10)
    # (the model-level mutants run side by side with it: a wrong client in the model must violate the matching invariant)
    def mutant(m):
        r = ctx.tlc("ECH_MC", cfg=mc_cfg(ctx, "ECH_MC_mut_" + m.replace("-", "_"), [7], [1], [32], [1], [1], [1, 3], [0, 32], [4865, 4866], 99, m), workers=1, timeout=600, count=False)
        return m, set(r.violated)
    with cf.ThreadPoolExecutor(max_workers=7) as ex:
        fmc = ex.submit(lambda: ctx.tlc("ECH_MC", cfg=mc_cfg(ctx, "ECH_MC_run", *full, sample, "none"), workers=8 if ctx.quick else 14, timeout=2400))
        fmut = [ex.submit(mutant, m) for m in MUTANTS]
        mc = fmc.result()
        muts = [f.result() for f in fmut]
    if mc.violated:
        raise vlib.Machinery("ECH_MC violates its own invariants %s: the specification contradicts itself\n%s" % (mc.violated, mc.out[-2500:]))
    scns = mc.tagged("SCN")
    if not scns:
        raise vlib.Machinery("ECH_MC emitted no scenario")
    capable = sorted({s["id"] for s in scns})
    if "Golang" not in capable or len(capable) < 2:
        raise vlib.Machinery("vacuous: ECH-capable IDs computed from the dump: %r" % capable)
    for m, v in muts:
        if not (v & MUTANTS[m]):
            raise vlib.Machinery("model mutant %s is not rejected by %s (violated: %s): the properties are insensitive" % (m, sorted(MUTANTS[m]), sorted(v)))

    # ---- replay on the real library
    for i, s in enumerate(scns):
        s["sc"] = i
    events = ctx.drv("ech", {"scenarios": scns}, prog="ech", timeout=1500)
    errs = [e for e in events if e["ev"] == "Error"]
    if errs:
        raise vlib.Machinery("harness errors: %r" % errs[:3])
    if not any(e["ev"] == "H9" for e in events):
        raise vlib.Machinery("hook H9 (verifEmit ech_inner in processECHClientHello) is not in the checkout under test: apply patches/hook-ech.diff")
    groups = split(events)
    if len(groups) != len(scns):
        raise vlib.Machinery("%d scenarios sent, %d recorded" % (len(scns), len(groups)))
    shards = 8 if ctx.quick else 14
    rej = validate(ctx, groups, shards, "main")
    ctx.traces += len(groups)

    # ---- rejections: not a judgement about the library
    mach = [r for r in rej if r[1] in ("machinery", "calibration")]
    if mach:
        raise vlib.Machinery("the test bench did not behave as the scenario asks: %r" % mach[:5])

    # ---- reproduce every rejected scenario in a fresh process, re-validate; only reproduced rejections are findings
    results = {g[0]["sc"]: g[-1] for g in groups}
    bad = sorted({r[0] for r in rej})
    unrepro = []
    if bad:
        again = [dict(scns[i]) for i in bad]
        ev2 = ctx.drv("ech", {"scenarios": again}, prog="ech", timeout=1500, name="ech_repro")
        rej2 = {(r[0], r[1], r[2]) for r in validate(ctx, split(ev2), min(shards, max(1, len(again) // 50)), "repro", count=False)}
        seen = set()
        # A signature names the list shape / the caller usage only when the rejection depends on it: when, among the scenarios
        # of the failing usages (shapes), some tested shape (usage) does not show it.
        ok2 = [(sc, kind, detail) for sc, kind, detail in rej if (sc, kind, detail) in rej2]
        fails = {}
        DIMS = ("shape", "usage", "ck", "suite")
        idc = lambda x: "golang" if x["id"] == "Golang" else "utls"
        for x in scns:
            x["ck"] = "cookie" if x["cookie"] > 0 else "nocookie"
        for sc, kind, detail in ok2:
            f = fails.setdefault(sig_of(scns[sc], kind, detail), {d: set() for d in DIMS})
            for d in DIMS:
                f[d].add(scns[sc][d])
        failing = {}
        for sc, kind, detail in ok2:
            failing.setdefault(sig_of(scns[sc], kind, detail), set()).add(sc)
        IMPLICIT = ("cert", "nretry", "hrr_group")
        memo = {}
        def explaining(sig, like):
            """the dimensions whose value alone predicts this rejection (every scenario of the population with a failing value shows
            it, and some value never does); population = same server and ID class, certificate / retry / group values as in the failures"""
            key = (sig, like["server"], idc(like))
            if key not in memo:
                bad_sc = failing[sig]
                imp = {d: {scns[i][d] for i in bad_sc} for d in IMPLICIT}
                pop = [x for x in scns if x["server"] == like["server"] and idc(x) == idc(like) and all(x[d] in imp[d] for d in IMPLICIT)]
                f = fails[sig]
                dims = [d for d in DIMS if all(x["sc"] in bad_sc for x in pop if x[d] in f[d]) and {x[d] for x in pop} != f[d]]
                if not dims:   # no single dimension predicts it: name those some tested value of which never shows it
                    dims = [d for d in DIMS if {x[d] for x in pop if all(x[o] in f[o] for o in DIMS if o != d)} != f[d]]
                memo[key] = dims
            return memo[key]
        def depends(sig, dim, like):
            return dim in explaining(sig, like)
        for sc, kind, detail in rej:
            s = scns[sc]
            if (sc, kind, detail) not in rej2:
                unrepro.append((sc, kind, detail))
                continue
            r = results[sc]
            base = sig_of(s, kind, detail)
            sig = base + (":list=" + s["shape"] if depends(base, "shape", s) else "") + (":usage=" + s["usage"] if depends(base, "usage", s) else "") \
                       + (":hrr-" + s["ck"] if depends(base, "ck", s) else "") + (":suite=%d" % s["suite"] if depends(base, "suite", s) else "")
            ctx.finding(sig, "%s, usage %s, config list %s, server %s (suite %#x, HRR cookie %d bytes), certificate valid for %s: %s %s; client error [%s] %s; server error %s"
                        % (s["id"], s["usage"], s["shape"], s["server"], s["suite"], s["cookie"], s["cert"], kind, clean(detail), r["errtype"], r["cerr"][:120], r["serr"][:120]),
                        {"scenario": brief(s), "kind": kind, "detail": detail,
                         "observed": {k: r[k] for k in ("errtype", "cerr", "serr", "cok", "sok", "echo")} if sig not in seen else "see first case"})
            seen.add(sig)

    # ---- binding canaries: corrupt one logged field of a good trace; TLC must reject exactly that
    badset = set(bad)
    sn_short = lambda g: len(g[0]["sname"]) <= 32
    def pick(pred):
        return next((g for g in groups if g[0]["sc"] not in badset and sn_short(g) and pred(g[0], g[-1])), None)
    g_acc = pick(lambda s, r: s["server"] == "accept" and r["errtype"] == "none")
    g_hrr = pick(lambda s, r: s["server"] == "hrr" and r["errtype"] == "none")
    g_rej = pick(lambda s, r: s["server"] == "reject" and s["nretry"] > 0 and r["errtype"] == "ECHRejectionError")
    canaries = []   # (name, events, kinds that must be rejected (None: nothing may be rejected))
    def forge(g, sc, fn):
        t = json.loads(json.dumps(g))
        for e in t:
            e["sc"] = sc
        fn(t)
        return t
    if g_acc:
        def leak(t):
            ch = next(e for e in t if e["ev"] == "CRec" and e["typ"] == 22)
            name = t[0]["sname"]
            ch["payload"][6:6 + len(name)] = [c - 32 if 97 <= c <= 122 and i % 2 else c for i, c in enumerate(name)]   # ServerName (mixed case) over the random
        def flip(t):
            t[-1]["cs"]["ech"] = False
        def inner(t):
            h = next(e for e in t if e["ev"] == "H9" and e["what"] == "ech_inner")
            h["raw"][len(h["raw"]) // 2] ^= 1
        def srvname(t):
            t[-1]["ss"]["sni"] = t[0]["pubname"]
        def refused(t):
            t[-1].update({"errtype": "CertificateVerificationError", "cok": False})
        def unopened(t):
            t[:] = [e for e in t if e["ev"] != "H9"]
        canaries += [("inner-hello-never-obtained", forge(g_acc, 900006, unopened), {"decrypt"})]
        canaries += [("good-accept", forge(g_acc, 900000, lambda t: None), None), ("servername-in-flight", forge(g_acc, 900001, leak), {"leak"}),
                     ("client-ech-flag", forge(g_acc, 900002, flip), {"report"}), ("inner-byte", forge(g_acc, 900003, inner), {"inner"}),
                     ("server-name", forge(g_acc, 900004, srvname), {"report"}), ("verify-verdict", forge(g_acc, 900005, refused), {"verify-name"})]
    if g_rej:
        def noretry(t):
            t[-1]["retry"] = []
        def accepted(t):
            t[-1].update({"errtype": "none", "cok": True, "sok": True, "echo": True})
            t[-1]["cs"]["complete"] = True
        canaries += [("good-reject", forge(g_rej, 900010, lambda t: None), None), ("retry-dropped", forge(g_rej, 900011, noretry), {"report"}),
                     ("rejection-swallowed", forge(g_rej, 900012, accepted), {"outcome"})]
    if g_hrr:
        def stale(t):   # the second reconstructed inner hello replaced by the first one (its key shares do not answer the HRR)
            inn = [e for e in t if e["ev"] == "H9" and e["what"] == "ech_inner"]
            inn[1]["raw"] = list(inn[0]["raw"])
        canaries += [("good-hrr", forge(g_hrr, 900020, lambda t: None), None), ("stale-inner-after-hrr", forge(g_hrr, 900021, stale), {"inner"})]
    g_ck = pick(lambda s, r: s["server"] == "hrr" and s["cookie"] > 0 and s["id"] != "Golang" and r["errtype"] == "none")
    if g_ck:
        def other_cookie(t):   # the HelloRetryRequest handed out another cookie than the one both second hellos echo
            h = next(e for e in t if e["ev"] == "SMsg" and e["t"] == 2 and e["raw"][6:38] == HRR)["raw"]
            i = 39 + h[38] + 3 + 2
            while i + 4 <= len(h):
                typ, n = h[i] * 256 + h[i + 1], h[i + 2] * 256 + h[i + 3]
                if typ == 44:
                    h[i + 4 + n - 1] ^= 1
                    return
                i += 4 + n
            raise vlib.Machinery("canary: no cookie extension in the recorded HelloRetryRequest")
        canaries += [("good-hrr-cookie", forge(g_ck, 900030, lambda t: None), None), ("cookie-not-echoed", forge(g_ck, 900031, other_cookie), {"inner", "outer"})]
    if canaries:
        crej = validate(ctx, [c[1] for c in canaries], 1, "canary", count=False)
        for name, t, want in canaries:
            kinds = {r[1] for r in crej if r[0] == t[0]["sc"]}
            if (want is None and kinds) or (want is not None and not (want <= kinds)):
                raise vlib.Machinery("binding canary %s: expected rejection kinds %s, TLC gave %s" % (name, want, sorted(kinds)))
    if not ctx.findings and not (g_acc and g_rej and g_hrr and g_ck):
        raise vlib.Machinery("no clean accept / accept-after-HRR / reject trace to build the binding canaries from")

    # ---- vacuity (computed from what was observed; not enforced over findings, which explain a missing class themselves)
    def count(pred):
        return sum(1 for g in groups if pred(g[0], g[-1], g))
    obs = {
        "accept_done": count(lambda s, r, g: s["server"] == "accept" and r["errtype"] == "none" and r["cs"]["ech"] and r["ss"]["ech"]),
        "hrr_observed": count(lambda s, r, g: s["server"] == "hrr" and any(e["ev"] == "SMsg" and e["t"] == 2 and e["raw"][6:38] == HRR for e in g)
                              and sum(1 for e in g if e["ev"] == "CRec" and e["typ"] == 22 and e["payload"][:1] == [1]) == 2),
        "hrr_done": count(lambda s, r, g: s["server"] == "hrr" and r["errtype"] == "none" and r["cs"]["ech"]),
        "hrr_cookie_done_utls": count(lambda s, r, g: s["server"] == "hrr" and s["cookie"] > 0 and s["id"] != "Golang" and r["errtype"] == "none" and r["cs"]["ech"]),
        "reject_hrr_cookie": count(lambda s, r, g: s["server"] == "reject_hrr" and s["cookie"] > 0 and r["errtype"] in ("ECHRejectionError", "CertificateVerificationError")),
        "accept_done_sha384": count(lambda s, r, g: s["server"] == "accept" and s["suite"] == 4866 and r["errtype"] == "none" and r["cs"]["ech"] and r["ss"]["ech"] and r["cs"]["suite"] == 4866),
        "hrr_done_sha384": count(lambda s, r, g: s["server"] == "hrr" and s["suite"] == 4866 and r["errtype"] == "none" and r["cs"]["ech"] and r["cs"]["suite"] == 4866),
        "second_inner_seen": count(lambda s, r, g: sum(1 for e in g if e["ev"] == "H9" and e["what"] == "ech_inner") == 2),
        "rejected_with_retry": count(lambda s, r, g: s["server"] in ("reject", "reject_hrr") and r["errtype"] == "ECHRejectionError" and len(r["retry"]) > 0),
        "rejected_without_retry": count(lambda s, r, g: r["errtype"] == "ECHRejectionError" and len(r["retry"]) == 0),
        "no_ech_server": count(lambda s, r, g: s["server"] == "noech" and r["errtype"] == "ECHRejectionError"),
        "verification_errors": count(lambda s, r, g: r["errtype"] == "CertificateVerificationError"),
        "inner_hellos": sum(1 for e in events if e["ev"] == "H9" and e["what"] == "ech_inner"),
    }
    if not ctx.findings:
        empty = [k for k, v in obs.items() if v == 0]
        if empty:
            raise vlib.Machinery("vacuous: never observed %s" % empty)
        if unrepro:
            raise vlib.Machinery("rejections that did not reproduce in a fresh process: %r" % unrepro[:5])
    elif unrepro:
        ctx.note("%d rejection(s) did not reproduce in a fresh process (not reported): %r" % (len(unrepro), unrepro[:3]))

    by = lambda k: {v: sum(1 for s in scns if s[k] == v) for v in sorted({s[k] for s in scns})}
    cov = {"evaluations": len(scns), "distinct_nontrivial": len({json.dumps({k: v for k, v in s.items() if k != "sc"}, sort_keys=True) for s in scns}),
           "rule": "terminal states of ECH_MC = ECH-capable IDs (from the dumped extension lists) x {config_id 0/7/255} x {AEAD 1/2/3} x {maximum_name_length 0/32/255} "
                   "x {2 name pairs} x ECHConfigList shape {single, [usable, second usable], [usable, unknown version, unsupported KEM], [unknown version, unsupported KEM, usable]} x server {accept, accept after HRR for each classical group without share, reject with 0/1/2 retry configs, reject after HRR, no ECH}, every HelloRetryRequest without / with a cookie of 1, 32, 255 bytes, the server selecting TLS 1.3 suite 0x1301 / 0x1302 / 0x1303 (hook ForceSuite13; tied to the Latin variant in both tiers: every suite with every ID, server behaviour, certificate) "
                   "x certificate {ServerName, public name, both, neither}; %s; every scenario replayed once, rejected ones twice; distinct = distinct scenarios"
                   % ("quick: config x AEAD x max-length reduced to a Latin square chosen by VERIF_SEED (a ninth of their product), name pair, list shape and caller usage "
                      "{Handshake only, BuildHandshakeState once/twice before, build+SetClientRandom, build+SetSNI(same name)} tied to it (each shape and each usage with every ID, server behaviour and certificate)"
                      if ctx.quick else
                      "thorough: config x AEAD x max-length reduced to a Latin square chosen by VERIF_SEED (a third: every pair of values occurs), name pair tied to it, "
                      "full product with list shape x caller usage x ID x server behaviour x certificate (HelloRetryRequests without cookie); each cookie length with every "
                      "ID x HRR group x usage x certificate x Latin variant, the list shape tied to the variant"),
           "capable_ids": capable, "by_server": by("server"), "by_list_shape": by("shape"), "by_usage": by("usage"), "by_suite": by("suite"), "by_cert": by("cert"), "events": len(events), "observed": obs,
           "model_mutants_rejected": sorted(MUTANTS), "binding_canaries": [c[0] for c in canaries],
           "rejected_scenarios": len(bad), "samples": [brief(scns[0]), brief(scns[len(scns) // 2]), brief(scns[-1])], "exhaustive": not ctx.quick}
    return "model_checking", cov, [
        "the peer is the in-tree tls.Server with EncryptedClientHelloKeys (accept), other keys (reject), none (no ECH), CurvePreferences=[group] (HRR); "
        "where it does not behave as configured the run is exit 2, not a verdict",
        "the inner hello is observed through hook H9 on the server (decrypted EncodedClientHelloInner + reconstructed ClientHelloInner); HPKE itself is trusted",
        "certificate kinds are multi-SAN leaves of a throw-away CA; the verification rule is CertVerifyDefs!ShouldAccept with the name chosen by acceptance",
        "the ECH extension of a second outer hello is judged only when the server accepted ECH; padding to maximum_name_length (a SHOULD) is not judged"]


HRR = [207, 33, 173, 116, 229, 154, 97, 17, 190, 29, 140, 2, 30, 101, 184, 145, 194, 162, 17, 22, 122, 187, 140, 94, 7, 158, 9, 226, 200, 168, 51, 156]
