"""C30 - the seeded PRNG (u_prng.go) is deterministic, safe for concurrent use, and its helpers stay in range.

TLA+: spec/Prng.tla (stream position under a mutex, Call/Lin/Ret, helper guards on 8-byte values),
      spec/Prng_MC.tla (lock/copy/unlock refinement of the critical section, guard laws, boundary grid),
      spec/Prng_Trace.tla (trace validation; nondeterministic: word counts and linearisation points).
Harness: harness/cmd/prng (prngref, prngsalt, prngseq, prngconc) - performs calls, logs results, judges nothing.

Three independent processes per sequential scenario: A records the reference stream (one Read(N) per seed),
B is the run under judgement, C repeats B and must log the same events (TLC compares them)."""
import concurrent.futures as cf
import json, os, random, re
import vlib

MACHINERY_REASONS = {"no-reference-stream", "reference-exhausted", "call-while-pending", "ret-without-call", "unknown-event"}
PROBE_LENS = [2, 3, 5, 8, 17, 64]
CONC_LENS = [0, 1, 2, 5, 8, 8, 16, 16, 33, 64, 200]
# newSaltedPRNGSeed keys HMAC with the salt; HMAC zero-pads its key, so salts that differ only in trailing NUL bytes
# derive the same seed. The two probe salts below exercise exactly that (see known_findings.json).
PROBE_TRAILING_NUL = True
SALT_LENS = [0, 1, 4, 31, 32, 33, 63, 64, 65, 128, 135, 136, 137, 200]


def b8(i):
    return list((i & (2**64 - 1)).to_bytes(8, "big"))


def i64(b):
    return int.from_bytes(bytes(b), "big", signed=True)


def fbits(x):
    import struct
    return list(struct.pack(">d", x))


def probe(rng):
    k = rng.randrange(3)
    if k == 0:
        return {"op": "Int63"}
    if k == 1:
        return {"op": "Uint64"}
    return {"op": "Read", "len": rng.choice(PROBE_LENS)}


def helper_ops(grid, rng, extra):
    """Every helper call of the TLC-emitted boundary grid plus `extra` seeded random ones."""
    ops = [{"op": "Intn", "n": n} for n in grid["intn"]] + [{"op": "Int63n", "n": n} for n in grid["intn"]]
    ops += [{"op": "Range", "min": p[0], "max": p[1]} for p in grid["ranges"]]
    ops += [{"op": "Flip", "w": w} for w in grid["flips"]]
    def rint():
        bits = rng.choice([1, 7, 8, 16, 31, 32, 33, 62, 63, 64])
        v = rng.getrandbits(bits)
        return b8(v if rng.random() < 0.8 else -v)
    for _ in range(extra):
        k = rng.randrange(4)
        if k == 0:
            ops.append({"op": "Intn", "n": rint()})
        elif k == 1:
            ops.append({"op": "Int63n", "n": rint()})
        elif k == 2:
            ops.append({"op": "Range", "min": rint(), "max": rint()})
        else:
            w = rng.choice([rng.random(), rng.uniform(-2, 3), rng.random() * 1e-300, 1 - rng.random() * 1e-12, 1 + rng.random() * 1e-12])
            ops.append({"op": "Flip", "w": fbits(w)})
    rng.shuffle(ops)
    return ops


def seq_scenario(sc, seed, salt, grid, rng, extra):
    ops = []
    for h in helper_ops(grid, rng, extra):
        ops.append(h)
        ops.append(probe(rng))          # every helper is followed by a call that reveals the stream position
        if rng.random() < 0.03:
            ops.append({"op": "Read", "len": 0})
    nread = sum(o.get("len", 8) for o in ops if o["op"] in ("Read", "Int63", "Uint64"))
    nhelp = sum(1 for o in ops if o["op"] not in ("Read", "Int63", "Uint64"))
    return {"sc": sc, "seed": seed, "salt": salt, "track": True, "ops": ops}, nread + 8 * 3 * nhelp + 2048


def conc_scenario(sc, seed, rng, threads, per):
    th = []
    for _ in range(threads):
        ops = []
        for _ in range(per):
            k = rng.randrange(5)
            ops.append({"op": "Int63"} if k == 0 else {"op": "Uint64"} if k == 1 else {"op": "Read", "len": rng.choice(CONC_LENS)})
        th.append(ops)
    n = sum(o.get("len", 8) for ops in th for o in ops)
    return {"sc": sc, "seed": seed, "salt": [], "track": True, "threads": th}, n + 64


def conc_free_scenario(sc, seed, grid, rng, threads):
    ops = helper_ops(grid, rng, 40)
    th = [ops[i::threads] for i in range(threads)]
    return {"sc": sc, "seed": seed, "salt": [], "track": False, "threads": th}


_uid = [0]


def tlc_trace(ctx, cfg, trace, trace2, refs, workers=1):
    """Runs Prng_Trace on private copies of the three files; returns (res, ends, salts)."""
    _uid[0] += 1
    u = _uid[0]
    src = open(os.path.join(ctx.scratch, "Prng_Trace.tla")).read()
    mod = "Prng_Trace_%d" % u
    src = src.replace("MODULE Prng_Trace", "MODULE " + mod)
    for f in ("prng_trace.ndjson", "prng_trace2.ndjson", "prng_ref.ndjson"):
        src = src.replace(f, f.replace(".ndjson", "_%d.ndjson" % u))
    open(os.path.join(ctx.scratch, mod + ".tla"), "w").write(src)
    ctx.write_ndjson("prng_trace_%d.ndjson" % u, trace)
    if trace2 is not None:
        ctx.write_ndjson("prng_trace2_%d.ndjson" % u, trace2)
    ctx.write_ndjson("prng_ref_%d.ndjson" % u, refs)
    res = ctx.tlc(mod, cfg=cfg, workers=workers, timeout=1500)
    if res.violated:
        raise vlib.Machinery("Prng_Trace reported %r (it has no invariants)" % (res.violated,))
    done = res.tagged("DONE")
    if not done or done[0] != len(trace):
        raise vlib.Machinery("Prng_Trace did not consume the batch: DONE=%r of %d" % (done, len(trace)))
    ends, salts = {}, {}
    for line in res.out.splitlines():
        m = re.match(r'^<<"END", (\d+), (\d+), "(.*)">>$', line.strip())
        if m:
            ends.setdefault(int(m.group(1)), []).append((int(m.group(2)), m.group(3)))
        m = re.match(r'^<<"SALT", (\d+), "(.*)">>$', line.strip())
        if m:
            salts[int(m.group(1))] = m.group(2)
    return res, ends, salts


def verdicts(trace, ends, scs):
    """sc -> None (explained by some behaviour) or (event index, reason) of the behaviour that got furthest."""
    out = {}
    for sc in scs:
        e = ends.get(sc)
        if not e:
            raise vlib.Machinery("no END line for scenario %d" % sc)
        if any(b == 0 for b, _ in e):
            out[sc] = None
        else:
            b, why = max(e)
            if why in MACHINERY_REASONS:
                raise vlib.Machinery("scenario %d: %s at event %d" % (sc, why, b))
            out[sc] = (b, why)
    return out


def run_seq(ctx, scs, nref, salts, tag):
    """Processes A (salt + reference), B, C for sequential scenarios; returns (trace, trace2, refs)."""
    saltA = ctx.drv("prngsalt", {"cases": salts}, prog="prng", name=tag + "_saltA")
    eff = []
    for s in scs:
        if s["salt"]:
            o = [e["out"] for e in saltA if e["seed"] == s["seed"] and e["salt"] == s["salt"]]
            eff.append(o[0])
        else:
            eff.append(s["seed"])
    uniq = [list(x) for x in sorted({tuple(x) for x in eff})]
    refs = [{"seed": e["seed"], "stream": e["stream"]} for e in ctx.drv("prngref", {"seeds": uniq, "n": nref}, prog="prng", name=tag + "_refA")]
    runs = []
    for r in ("B", "C"):
        t = ctx.drv("prngsalt", {"cases": salts}, prog="prng", name=tag + "_salt" + r)
        t += ctx.drv("prngseq", {"scenarios": scs}, prog="prng", name=tag + "_seq" + r)
        runs.append(t)
    return runs[0], runs[1], refs


def run_conc(ctx, scs, nref, tag):
    refs = [{"seed": e["seed"], "stream": e["stream"]} for e in
            ctx.drv("prngref", {"seeds": [list(x) for x in sorted({tuple(s["seed"]) for s in scs})], "n": nref}, prog="prng", name=tag + "_refA")]
    race = None
    try:
        trace = ctx.drv("prngconc", {"scenarios": scs}, race=True, prog="prng", name=tag + "_conc")
    except vlib.Machinery:
        err = getattr(ctx, "last_drv_stderr", "")
        if "DATA RACE" not in err:
            raise
        race = err
        trace = [json.loads(l) for l in open(os.path.join(ctx.scratch, tag + "_conc.out.ndjson")) if l.strip()]
    return trace, refs, race


def ev_sig(e):
    return e["ev"] if e["ev"] not in ("Call", "Ret") else "concurrent-" + e.get("op", "Ret")


def run(ctx):
    rng = random.Random(ctx.seed * 7919 + 30)
    quick = ctx.quick

    # ------------------------------------------------------------------ 1. model level
    with cf.ThreadPoolExecutor(max_workers=3) as ex:
        f1 = ex.submit(ctx.tlc, "Prng_MC", cfg="Prng_MC" if quick else "Prng_MC_deep", workers=4, coverage=True, timeout=1500)
        f2 = ex.submit(ctx.tlc, "Prng_MC", cfg="Prng_MC_nomutex", workers=1, count=False)
        f3 = ex.submit(ctx.tlc, "Prng_MC", cfg="Prng_MC_guards", workers=2)
        mc, nomutex, guards = f1.result(), f2.result(), f3.result()
    if mc.violated:
        raise vlib.Machinery("Prng_MC: the lock/copy/unlock model does not refine Call/Lin/Ret: %r" % mc.violated)
    for act in ("GCall", "GAcquire", "GCopy", "GRelease", "GRet"):
        if not mc.coverage.get(act):
            raise vlib.Machinery("vacuity: action %s never taken in Prng_MC" % act)
    if not nomutex.violated:
        raise vlib.Machinery("Prng_MC without the mutex still refines Call/Lin/Ret: the refinement property has no teeth")
    if guards.violated:
        raise vlib.Machinery("Prng_MC_guards: guard laws violated at model level: %r" % guards.violated)
    grid = guards.tagged("GRID")
    if len(grid) != 1 or not grid[0]["ranges"]:
        raise vlib.Machinery("no GRID emitted by Prng_MC_guards")
    grid = grid[0]

    # ------------------------------------------------------------------ 2. scenarios
    nseeds = 4 if quick else 30
    seeds = [[0] * 32, [255] * 32] + [[rng.randrange(256) for _ in range(32)] for _ in range(nseeds)]
    salt_strs = [list(b"ALPS"), list(b"a"), list(b"b"), list(b"ab"), [0, 1], list(range(256)) + [7] * 44]
    salts = [{"seed": s, "salt": x} for s in seeds[:4] for x in salt_strs + [[]]]
    salts += [{"seed": seeds[0], "salt": list(b"ALPS")}, {"seed": seeds[1], "salt": list(b"a")}]      # repeated: same answer
    if PROBE_TRAILING_NUL:
        salts += [{"seed": seeds[2], "salt": list(b"a\x00")}, {"seed": seeds[2], "salt": [0]}]       # vs "a" and "" above
    # the length dimension: salts of every length around HashLen (32), 64 and SHA3-256's HMAC block size (136), all bytes
    # non-zero, and for each length partners that differ from it (a) in the last byte only, (b) only beyond byte 32,
    # (c) only beyond byte 64, (d) only beyond byte 136, (e) by one more (non-zero) byte at the end
    def sbytes(n, tag):
        return [1 + (i * 7 + tag * 13) % 255 for i in range(n)]
    fam = []
    for n in SALT_LENS:
        base = sbytes(n, 1)
        fam.append(base)
        if n >= 1:
            fam.append(base[:-1] + [(base[-1] % 255) + 1])
        for cut in (32, 64, 136):
            if n > cut:
                fam.append(base[:cut] + sbytes(n - cut, 2 + cut))
        fam.append(base + [9])
    for _ in range(6 if quick else 40):
        n = rng.choice(SALT_LENS[1:])
        base = [rng.randrange(1, 256) for _ in range(n)]
        k = rng.randrange(n)
        fam += [base, base[:k] + [(base[k] % 255) + 1] + base[k + 1:]]
    uniq = []
    for x in fam:
        if x not in uniq:
            uniq.append(x)
    salts += [{"seed": s, "salt": x} for s in (seeds[0], seeds[3]) for x in uniq]
    long_salts = [sbytes(65, 1), sbytes(65, 1)[:32] + sbytes(33, 34)]
    scs, nref, sc = [], 0, 0
    for s in seeds:
        sc += 1
        x, n = seq_scenario(sc, s, [], grid, rng, 60 if quick else 600)
        scs.append(x); nref = max(nref, n)
    nplain = len(scs)
    for s in seeds[:3]:
        for st in salt_strs[:2]:
            sc += 1
            x, n = seq_scenario(sc, s, st, {"intn": grid["intn"][:6], "ranges": grid["ranges"][:40], "flips": grid["flips"]}, rng, 20)
            scs.append(x); nref = max(nref, n)
    for st in long_salts:            # streams of PRNGs salted with long salts that share their first 32 bytes
        sc += 1
        x, n = seq_scenario(sc, seeds[0], st, {"intn": grid["intn"][:4], "ranges": grid["ranges"][:10], "flips": grid["flips"][:4]}, rng, 5)
        scs.append(x); nref = max(nref, n)
    trace, trace2, refs = run_seq(ctx, scs, nref, salts, "seq")

    nconc = 6 if quick else 60
    cscs, cref = [], 0
    for k in range(nconc):
        sc += 1
        x, n = conc_scenario(sc, seeds[k % len(seeds)], rng, rng.choice([2, 4, 8, 16]), 12 if quick else 30)
        cscs.append(x); cref = max(cref, n)
    for k in range(2 if quick else 10):
        sc += 1
        cscs.append(conc_free_scenario(sc, seeds[k % len(seeds)], grid, rng, 8))
    ctrace, crefs, race = run_conc(ctx, cscs, cref, "conc")
    if race:
        ctx.finding("race:prng", "the race detector reported a data race while goroutines shared one prng",
                    {"stderr": race[-3000:], "scenarios": len(cscs)})

    # ------------------------------------------------------------------ 3. canaries (must be rejected), appended to the real batches
    def scen_events(tr, scid):
        i = next(k for k, e in enumerate(tr) if e["ev"] == "New" and e["sc"] == scid)
        j = next(k for k in range(i, len(tr)) if tr[k]["ev"] == "End")
        return [dict(e) for e in tr[i:j + 1]]
    base = scen_events(trace, 1)
    can, can2, expect = [], [], {}
    def add(scid, evs, evs2=None, why=None):
        evs[0]["sc"] = scid; evs[-1]["sc"] = scid
        evs2 = evs2 if evs2 is not None else [dict(e) for e in evs]
        evs2[0]["sc"] = scid; evs2[-1]["sc"] = scid
        can.extend(evs); can2.extend(evs2); expect[scid] = why
    add(9000, [dict(e) for e in base], why="accept")                                   # control: unmodified
    c = [dict(e) for e in base]
    k = next(i for i, e in enumerate(c) if e["ev"] == "Read" and e["len"] >= 8 and i > 20)
    c[k]["out"] = list(c[k]["out"]); c[k]["out"][3] ^= 1
    add(9001, c, why="reject")                                                         # one bit of one Read result
    c = [dict(e) for e in base]
    k = next(i for i, e in enumerate(c) if e["ev"] == "Intn" and 0 < i64(e["n"]) < 2**62)
    c[k]["out"] = c[k]["n"]
    add(9002, c, why="intn-out-of-range")                                              # Intn returns n
    c = [dict(e) for e in base]
    k = next(i for i, e in enumerate(c) if e["ev"] == "Read" and e["len"] % 8 != 0 and i > 20)
    del c[k]
    add(9003, c, why="reject")                                                         # bytes taken but not logged
    c = [dict(e) for e in base]; c2 = [dict(e) for e in base]
    k = next(i for i, e in enumerate(c2) if e["ev"] == "Range" and i > 10)
    c2[k]["out"] = b8(i64(c2[k]["out"]) + 1)
    add(9004, c, c2, why="rerun-differs")                                              # the re-run disagrees
    c = [dict(e) for e in base]
    k = next(i for i, e in enumerate(c) if e["ev"] == "Range" and i64(e["min"]) < 0 and i64(e["max"]) > 5)
    c[k]["out"] = b8(-1)
    add(9005, c, why="range-out-of-range")                                             # Range did not clamp min
    c = [dict(e) for e in base]
    k = next(i for i, e in enumerate(c) if e["ev"] == "Flip" and e["w"] == fbits(0.0))
    c[k]["out"] = True
    add(9006, c, why="flip-true-for-weight-le-0")
    c = [dict(e) for e in base]
    k = next(i for i, e in enumerate(c) if e["ev"] == "Int63")
    c[k]["out"] = [c[k]["out"][0] | 128] + c[k]["out"][1:]
    add(9007, c, why="reject")                                              # Int63 without the mask
    # concurrent canaries: a torn read (two callers get interleaved bytes), a legal reordering, a corrupted result
    st = crefs[0]["stream"]
    torn = [{"ev": "New", "sc": 9100, "seed": crefs[0]["seed"], "salt": [], "track": True},
            {"ev": "Call", "t": 0, "op": "Read", "len": 4, "panic": ""}, {"ev": "Call", "t": 1, "op": "Read", "len": 4, "panic": ""},
            {"ev": "Ret", "t": 0, "out": st[0:8:2], "panic": ""}, {"ev": "Ret", "t": 1, "out": st[1:8:2], "panic": ""}, {"ev": "End", "sc": 9100}]
    fine = [dict(e) for e in torn]
    fine[0]["sc"] = fine[-1]["sc"] = 9101
    fine[3] = dict(fine[3], out=st[4:8]); fine[4] = dict(fine[4], out=st[0:4])     # t1 linearised first: legal
    late = [dict(e) for e in torn]                                                  # t1 called after t0 returned but got the earlier slice
    late[0]["sc"] = late[-1]["sc"] = 9103
    late = [late[0], late[1], dict(late[3], out=st[4:8]), late[2], dict(late[4], out=st[0:4]), late[5]]
    cbase = scen_events(ctrace, cscs[0]["sc"])
    k = next(i for i, e in enumerate(cbase) if e["ev"] == "Ret" and len(e["out"]) >= 8)
    cbase[k]["out"] = list(cbase[k]["out"]); cbase[k]["out"][0] ^= 128
    cbase[0]["sc"] = cbase[-1]["sc"] = 9102
    ccan = torn + fine + cbase + late
    cexpect = {9100: "reject", 9101: "accept", 9102: "reject", 9103: "reject"}

    # ------------------------------------------------------------------ 4. TLC judges the logs (canaries ride along)
    # shards: [salt events + salted scenarios + canaries] and groups of plain scenarios; concurrent scenarios in groups
    def split(tr):
        """(salt events, {sc: events})"""
        se, by, cur = [], {}, None
        for e in tr:
            if e["ev"] == "Salt":
                se.append(e)
            else:
                if e["ev"] == "New":
                    cur = e["sc"]
                by.setdefault(cur, []).append(e)
        return se, by
    se1, by1 = split(trace)
    se2, by2 = split(trace2)
    # Salt canaries on a seed no scenario uses: control, trailing-NUL twin, a second salt with the same derived seed,
    # a derivation that differs from the independent HKDF, the same (seed, salt) deriving something else
    FAKE = [9] * 32
    sb = next(e for e in se1 if len(e["salt"]) == 33 and e["err"] == "")
    flip = sb["out"][:-1] + [sb["out"][-1] ^ 1]
    scan = [(dict(sb, seed=FAKE), ""),
            (dict(sb, seed=FAKE, salt=sb["salt"] + [0]), "salt-collision:trailing-nul"),
            (dict(sb, seed=FAKE, salt=sb["salt"][:32] + [sb["salt"][32] ^ 1]), "salt-collision"),
            (dict(sb, seed=FAKE, salt=sb["salt"] + [8], out=flip), "salt-differs-from-independent-hkdf"),
            (dict(sb, seed=FAKE, out=flip, ind=flip), "salt-not-deterministic")]
    nreal_salt = len(se1)
    se1 = se1 + [c[0] for c in scan]
    se2 = se2 + [c[0] for c in scan]
    _, cby = split(ctrace)
    nsh = 1 if quick else 6
    plain = [s["sc"] for s in scs[:nplain]]
    salted_ids = [s["sc"] for s in scs[nplain:]]
    jobs = []
    def cat(by, ids):
        return [e for i in ids for e in by[i]]
    jobs.append(("Prng_Trace", se1 + cat(by1, salted_ids) + can + (cat(by1, plain) if nsh == 1 else []),
                 se2 + cat(by2, salted_ids) + can2 + (cat(by2, plain) if nsh == 1 else []), refs,
                 salted_ids + sorted(expect) + (plain if nsh == 1 else [])))
    if nsh > 1:
        for k in range(nsh):
            ids = plain[k::nsh]
            if ids:
                jobs.append(("Prng_Trace", cat(by1, ids), cat(by2, ids), refs, ids))
    cids = [s["sc"] for s in cscs]
    for k in range(nsh):
        ids = cids[k::nsh]
        if ids:
            jobs.append(("Prng_Trace_conc", cat(cby, ids) + (ccan if k == 0 else []), None, crefs, ids + (sorted(cexpect) if k == 0 else [])))
    with cf.ThreadPoolExecutor(max_workers=min(len(jobs), 8)) as ex:
        outs = list(ex.map(lambda j: (j, tlc_trace(ctx, j[0], j[1], j[2], j[3])), jobs))
    sv, saltwhy = {}, {}
    for (cfg, tr, tr2, rf, ids), (res, ends, sw) in outs:
        sv.update(verdicts(tr, ends, ids))
        if sw:
            saltwhy = {i: (w, tr[i - 1]) for i, w in sw.items()}
    # canaries are cut from scenario 1 / the first concurrent scenario: if TLC rejects those themselves (a finding
    # below), a canary can only be required to be rejected too
    base_ok = sv[1] is None and sv[9000] is None
    cbase_ok = sv[cscs[0]["sc"]] is None
    for scid, want in list(expect.items()) + list(cexpect.items()):
        got = sv.pop(scid)
        strict = base_ok if scid < 9100 else (cbase_ok or scid != 9102)
        if not strict:
            want = "reject" if want != "accept" else None
        ok = True if want is None else (got is None) if want == "accept" else (got is not None and (want == "reject" or got[1] == want))
        if not ok:
            raise vlib.Machinery("binding canary %d: expected %s, TLC said %r" % (scid, want, got))
    if not base_ok and sv[1] is None:
        raise vlib.Machinery("the unmodified copy of scenario 1 is rejected but scenario 1 is accepted")
    ctx.traces += len(scs) + len(cscs)
    nsalt = len(se1)
    if len(saltwhy) != nsalt:
        raise vlib.Machinery("SALT lines %d != Salt events %d" % (len(saltwhy), nsalt))
    real_salt_bad = any(w for i, (w, e) in saltwhy.items() if i <= nreal_salt and e["seed"] == sb["seed"] and e["salt"] == sb["salt"])
    for k, (c, want) in enumerate(scan):
        got = saltwhy.pop(nreal_salt + 1 + k)[0]
        # if the real event the canaries are cut from is itself rejected (a finding below), only "corrupted => rejected" can be required
        if got != want and not (real_salt_bad and (got != "" or want == "")):
            raise vlib.Machinery("salt canary %d: TLC said %r, expected %r" % (k, got, want))
    nsalt = nreal_salt
    for idx, (why, e) in sorted(saltwhy.items()):
        if why:
            other = [x for x in se1[:nreal_salt] if x["seed"] == e["seed"] and x["salt"] != e["salt"] and x["out"] == e["out"]]
            ctx.finding("salt:" + why, "newSaltedPRNGSeed(seed, %r) [salt of %d bytes]: %s%s; identical in the two independent runs of the harness" % (
                        bytes(e["salt"]), len(e["salt"]), why,
                        " with salt(s) %r" % [bytes(x["salt"]) for x in other[:3]] if other and "collision" in why else ""),
                        {"seed": e["seed"], "salt": e["salt"], "out": e["out"], "independent_hkdf": e["ind"],
                         "same_out_as_salts": [x["salt"] for x in other[:5]]})

    # reproduce rejected scenarios alone, in fresh processes (at most 2 per provisional signature; the rest are counted)
    byid = {s["sc"]: s for s in scs + cscs}
    all_events = {"seq": by1, "conc": cby}
    reproduced = {}
    for scid, v in sorted(sv.items()):
        if v is None:
            continue
        s = byid[scid]
        conc = "threads" in s
        first_ev = all_events["conc" if conc else "seq"][scid]
        # event index in verdicts is relative to the shard batch; recover the kind from the reason only
        prov = v[1] + (":conc" if conc else ":seq")
        if len(reproduced.get(prov, [])) >= 2:
            f = reproduced[prov][0]
            ctx.finding(f[0], f[1], {"scenario": s, "note": "same provisional signature as a reproduced case; not re-run"})
            continue
        if conc:
            t2, r2, race2 = run_conc(ctx, [s], cref, "re%d" % scid)
            _, e2, _ = tlc_trace(ctx, "Prng_Trace_conc", t2, None, r2)
        else:
            t2, t22, r2 = run_seq(ctx, [s], nref, salts, "re%d" % scid)
            _, e2, _ = tlc_trace(ctx, "Prng_Trace", t2, t22, r2)
        v2 = verdicts(t2, e2, [scid])[scid]
        if v2 is None:
            raise vlib.Machinery("scenario %d was rejected (%r) but the rejection did not reproduce" % (scid, v))
        ev = t2[v2[0] - 1]
        sig = "%s:%s" % (v2[1], ev_sig(ev))
        what = "prng %s scenario: %s at event %s" % ("concurrent" if conc else "sequential", v2[1], json.dumps(ev)[:400])
        reproduced.setdefault(prov, []).append((sig, what))
        ctx.finding(sig, what, {"scenario": s, "event_index": v2[0], "event": ev})

    # ------------------------------------------------------------------ 5. vacuity of the binding
    calls = [e for e in trace if e["ev"] in ("Intn", "Int63n", "Range", "Flip")]
    classes = {
        "intn_n_le_0": sum(1 for e in calls if e["ev"] in ("Intn", "Int63n") and i64(e["n"]) <= 0),
        "intn_n_pos": sum(1 for e in calls if e["ev"] in ("Intn", "Int63n") and i64(e["n"]) > 0),
        "intn_n_maxint": sum(1 for e in calls if e["ev"] in ("Intn", "Int63n") and i64(e["n"]) == 2**63 - 1),
        "range_min_neg": sum(1 for e in calls if e["ev"] == "Range" and i64(e["min"]) < 0),
        "range_max_below_min": sum(1 for e in calls if e["ev"] == "Range" and i64(e["max"]) < max(i64(e["min"]), 0)),
        "range_span_overflows": sum(1 for e in calls if e["ev"] == "Range" and i64(e["max"]) - max(i64(e["min"]), 0) + 1 >= 2**63),
        "range_proper": sum(1 for e in calls if e["ev"] == "Range" and i64(e["max"]) > max(i64(e["min"]), 0)),
        "flip_le0": sum(1 for e in calls if e["ev"] == "Flip" and (e["w"][0] >= 128 or not any(e["w"]))),
        "flip_ge1": sum(1 for e in calls if e["ev"] == "Flip" and e["w"][0] < 128 and bytes(e["w"]) >= bytes([63, 240, 0, 0, 0, 0, 0, 0])),
        "flip_between": sum(1 for e in calls if e["ev"] == "Flip" and e["w"][0] < 128 and any(e["w"]) and bytes(e["w"]) < bytes([63, 240, 0, 0, 0, 0, 0, 0])),
    }
    def pairs_sharing(n):
        return sum(1 for a in range(len(uniq)) for b in range(a) if len(uniq[a]) > n and len(uniq[b]) > n and uniq[a][:n] == uniq[b][:n])
    classes["salt_pairs_differing_only_beyond_byte_32"] = pairs_sharing(32)
    classes["salt_pairs_differing_only_beyond_byte_64"] = pairs_sharing(64)
    classes["salt_pairs_differing_only_beyond_byte_136"] = pairs_sharing(136)
    classes["salt_pairs_differing_in_last_byte"] = sum(1 for a in range(len(uniq)) for b in range(a) if len(uniq[a]) == len(uniq[b]) > 0 and uniq[a][:-1] == uniq[b][:-1])
    classes["salt_lengths"] = len({len(x) for x in uniq})
    for k, v in classes.items():
        if v == 0:
            raise vlib.Machinery("vacuity: no executed call of class %s" % k)
    # contention actually happened in the tracked concurrent logs: a Call logged while another call was pending
    overlap, pending = 0, set()
    for e in ctrace:
        if e["ev"] == "New":
            pending = set()
        elif e["ev"] == "Call":
            overlap += 1 if pending else 0
            pending.add(e["t"])
        elif e["ev"] == "Ret":
            pending.discard(e["t"])
    ncalls = sum(1 for e in ctrace if e["ev"] == "Call")
    if overlap == 0:
        raise vlib.Machinery("vacuity: no overlapping calls in the concurrent scenarios")
    nonzero = sum(1 for e in calls if e["ev"] != "Flip" and any(e["out"]))
    if nonzero == 0:
        raise vlib.Machinery("vacuity: every helper returned 0")

    sample = [{k: (v if k != "out" or not isinstance(v, list) or len(v) <= 8 else v[:8] + ["..."]) for k, v in e.items()} for e in calls[:4]]
    cov = {"evaluations": len(trace) + len(ctrace), "distinct_nontrivial": len({json.dumps({k: e[k] for k in e if k not in ("out",)}, sort_keys=True) for e in calls}),
           "rule": "evaluations = logged events judged by TLC (sequential run B + concurrent run); distinct = distinct helper calls (kind, arguments) executed; "
                   "every call of the TLC-emitted boundary grid (%d Intn/Int63n values, %d Range pairs, %d weights) on each of %d seeds plus seeded random arguments; "
                   "3 processes per sequential scenario (reference, run, re-run)" % (len(grid["intn"]), len(grid["ranges"]), len(grid["flips"]), len(seeds)),
           "samples": sample, "seeds": len(seeds), "sequential_scenarios": len(scs), "concurrent_scenarios": len(cscs),
           "concurrent_calls": ncalls, "overlapping_calls": overlap, "salt_events": nsalt, "classes": classes,
           "model": {"refinement_states": mc.distinct, "refinement_cfg": "Prng_MC" if quick else "Prng_MC_deep",
                     "nomutex_counterexample": True, "guard_lattice_states": guards.distinct},
           "canaries": {"sequential": len(expect), "concurrent": len(cexpect)}, "race_detector": "on (prngconc built with -race)", "exhaustive": False}
    return "model_checking", cov, [
        "the reference stream of a seed is what a separate process of the same binary reads in one Read call (SHAKE256 itself is not modelled)",
        "a helper uses at most 64 stream words per call (each rejection-sampling retry has probability < 1/2)",
        "data-race freedom is the Go race detector's judgement on the executed schedules, not TLC's",
        "FlipWeightedCoin(weight >= 1) in untracked concurrent scenarios is required to be true (false has probability 2^-63)"]
